#!/usr/bin/env python3-vt
"""Driver: ./check.py <PROPERTY-ID> [--tier quick|thorough]

exit 0  property held on everything explored (known findings are printed as KNOWN-FINDING lines)
exit 1  VIOLATION property=<id> replay=<path>   (a violation that is not a listed known finding)
exit 2  inconclusive (engine met MIR it does not understand, solver unknown, budget exhausted, replay mismatch)
"""
import argparse
import hashlib
import json
import os
import pickle
import re
import sys
import time
import traceback

ROOT = os.path.dirname(os.path.abspath(__file__))
sys.path.insert(0, os.path.join(ROOT, 'mirse'))

import mir          # noqa: E402
import mirdump      # noqa: E402
from engine import Unsupported  # noqa: E402

CACHE = os.path.join(ROOT, '.cache')
EVID = os.environ.get('VERIF_EVID', os.path.join(ROOT, 'evidence'))      # scratch runs (seeded mutants) write elsewhere
REPLAYS = os.environ.get('VERIF_REPLAYS', os.path.join(ROOT, 'replays'))


def load_known():
    p = os.path.join(ROOT, 'known-findings.json')
    if not os.path.exists(p):
        return []
    return json.load(open(p))['findings']


class Ctx:
    def __init__(self, pid, tier, seed):
        self.pid = pid
        self.tier = tier
        self.seed = seed
        self.text, self.dump_info = mirdump.dump()
        self.functions = mir.parse_mir(self.text)
        self.enums = hannibal_enums()
        self.tree = self.dump_info['tree_hash']

    def cached(self, name, fn):
        """results of the shared explorations are reused between the checks of one run; the key covers the source tree
        under check, the tier, the seed and the checker's own code"""
        os.makedirs(CACHE, exist_ok=True)
        h = hashlib.sha256()
        for f in sorted(os.listdir(os.path.join(ROOT, 'mirse'))):
            if f.endswith('.py'):
                h.update(open(os.path.join(ROOT, 'mirse', f), 'rb').read())
        h.update(open(os.path.join(ROOT, 'replay', 'src', 'main.rs'), 'rb').read())
        h.update(open(os.path.join(ROOT, 'replay-rt', 'src', 'main.rs'), 'rb').read())
        p = os.path.join(CACHE, f"{name}-{self.tree}-{self.tier}-{self.seed}-{h.hexdigest()[:12]}.pkl")
        if os.path.exists(p):
            try:
                return pickle.load(open(p, 'rb')), True
            except Exception:
                pass
        v = fn()
        pickle.dump(v, open(p + '.tmp', 'wb'))
        os.replace(p + '.tmp', p)
        return v, False


def hannibal_enums():
    """variant order of hannibal's own enums, read from the source the dump was made from"""
    enums = {}
    repo = mirdump.REPO
    for dp, dn, fn in os.walk(os.path.join(repo, 'src')):
        for f in fn:
            if not f.endswith('.rs'):
                continue
            src = open(os.path.join(dp, f)).read()
            for m in re.finditer(r'\benum\s+(\w+)\s*(?:<[^>{]*>)?\s*\{(.*?)\n\}', src, re.S):
                body = re.sub(r'//[^\n]*', '', m.group(2))
                body = re.sub(r'#\[[^\]]*\]', '', body)
                names = []
                depth = 0
                tok = ''
                for ch in body:
                    if ch in '({[<':
                        depth += 1
                    elif ch in ')}]>':
                        depth -= 1
                    elif ch == ',' and depth == 0:
                        names.append(tok.strip())
                        tok = ''
                        continue
                    if depth == 0 or True:
                        tok += ch
                if tok.strip():
                    names.append(tok.strip())
                vs = []
                for n in names:
                    mm = re.match(r'^(\w+)', n.strip())
                    if mm:
                        vs.append(mm.group(1))
                if vs:
                    enums[m.group(1)] = vs
    return enums


def main():
    ap = argparse.ArgumentParser()
    ap.add_argument('pid')
    ap.add_argument('--tier', default=os.environ.get('VERIF_TIER', 'quick'))
    ap.add_argument('--replay')
    args = ap.parse_args()
    seed = int(os.environ.get('VERIF_SEED', '0') or 0)
    tier = args.tier if args.tier in ('quick', 'thorough') else 'quick'
    t0 = time.time()
    import registry
    if args.pid not in registry.CHECKS:
        print(f"no check for {args.pid}")
        return 2
    os.makedirs(EVID, exist_ok=True)
    os.makedirs(REPLAYS, exist_ok=True)
    evid_path = os.path.join(EVID, f"{args.pid}.json")
    try:
        ctx = Ctx(args.pid, tier, seed)
        res = registry.CHECKS[args.pid](ctx)
    except (Unsupported, RuntimeError, AssertionError, KeyError, IndexError, TypeError, ValueError, AttributeError, RecursionError) as e:
        print(f"INCONCLUSIVE property={args.pid}: engine does not support something in the current tree: {type(e).__name__}: {e}")
        traceback.print_exc()
        write_evidence(evid_path, args.pid, tier, seed, dict(evaluations=0, distinct_nontrivial=0, samples=[],
                       explanation=f"inconclusive: {e}"), [], time.time() - t0, 0, inconclusive=True)
        return 2
    known = [k for k in load_known() if k['property'] == args.pid and k.get('status', 'open') == 'open']
    new = []
    matched = {}
    for v in res['violations']:
        sig = v['sig']
        hit = None
        for k in known:
            if re.search(k['match'], sig):
                hit = k
                break
        if hit:
            matched.setdefault(hit['id'], (hit, v))
        else:
            new.append(v)
    for kid, (k, v) in matched.items():
        print(f"KNOWN-FINDING: property={args.pid} {k['summary']}  [{kid}; witness: {v['sig']}]")
    rc = 0
    if res.get('inconclusive'):
        print(f"INCONCLUSIVE property={args.pid}: {res['inconclusive']}")
        rc = 2
    if new:
        # group by signature, write one replay file per distinct signature (first witness)
        seen = {}
        for v in new:
            seen.setdefault(v['sig'], v)
        for i, (sig, v) in enumerate(sorted(seen.items())[:5]):
            path = os.path.join(REPLAYS, f"{args.pid}-{hashlib.sha1(sig.encode()).hexdigest()[:10]}.json")
            json.dump({'property': args.pid, 'signature': sig, 'witness': v, 'tree': ctx.tree}, open(path, 'w'), indent=1, default=str)
            print(f"VIOLATION property={args.pid} replay={path}")
            print(f"   {sig}")
        rc = 1
    cov = res['coverage']
    cov['violations_found'] = len(res['violations'])
    cov['known_findings_matched'] = sorted(matched)
    write_evidence(evid_path, args.pid, tier, seed, cov, res.get('assumptions', []), time.time() - t0,
                   len(new), level=res.get('level', 'model_checking'))
    print(f"{args.pid}: {'held' if rc == 0 else 'FAILED' if rc == 1 else 'inconclusive'} "
          f"({cov.get('evaluations')} symbolic paths, {cov.get('solver_queries')} solver queries, {time.time()-t0:.1f}s)")
    return rc


def write_evidence(path, pid, tier, seed, cov, assumptions, wall, violations, level='model_checking', inconclusive=False):
    ev = {'property_id': pid, 'tier': tier, 'seed': seed, 'level': level, 'coverage': cov,
          'assumptions': assumptions, 'wall_s': round(wall, 2), 'violations': violations}
    if inconclusive:
        ev['coverage'].setdefault('evaluations', 0)
    ev = json.loads(json.dumps(ev, default=str))
    # the evidence must validate against the schema (a copy is kept next to the checker)
    try:
        import jsonschema
        sp = os.path.join(ROOT, 'tools', 'EVIDENCE.schema.json')
        if os.path.exists(sp):
            jsonschema.validate(ev, json.load(open(sp)))
    except Exception as ex:      # never lose the run over its report: say so and keep the valid core
        print(f"WARNING: evidence did not validate against the schema: {str(ex)[:300]}")
        cov = ev['coverage']
        ev['coverage'] = {k: cov[k] for k in ('evaluations', 'distinct_nontrivial', 'rule', 'samples', 'states', 'transitions',
                                               'traces_validated_against_impl', 'explanation', 'exhaustive') if k in cov}
        ev['coverage']['note'] = 'full coverage record dropped: it did not validate against the schema'
    json.dump(ev, open(path, 'w'), indent=1)


if __name__ == '__main__':
    try:
        rc = main()
    except SystemExit:
        raise
    except BaseException as ex:      # an internal error is never a verdict
        traceback.print_exc()
        print(f"INCONCLUSIVE: internal error of the checker: {type(ex).__name__}: {ex}")
        rc = 2
    sys.exit(rc)
