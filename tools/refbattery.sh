#!/bin/bash
# usage: refbattery.sh <logfile> [R1 R2 ...] - apply each behaviour-preserving refactoring (seeded/benign/<R>/patch.diff) to a
# scratch worktree of /repo's head and run all checks against it (3 in parallel); every check must exit 0
log=$1; shift
V=${VERIF_ROOT:-/verif}
export V
ids=${@:-$(ls $V/seeded/benign | grep -E '^R[0-9]+$' | sort -V)}
: > $log
mkdir -p /tmp/refwt
run_one() {
  r=$1; wt=/tmp/refwt/$r
  git -C /repo worktree remove --force $wt 2>/dev/null; rm -rf $wt
  git -C /repo worktree add -q --detach $wt HEAD || { echo "REFACTOR $r => worktree failed"; return; }
  git -C $wt apply $V/seeded/benign/$r/patch.diff || { echo "REFACTOR $r => patch does not apply"; git -C /repo worktree remove --force $wt; return; }
  $V/tools/refcheck.sh $wt 2>&1 | grep -v "^WARNING" | tail -6
  git -C /repo worktree remove --force $wt
  tag=$(python3 -c "import hashlib,sys;print(hashlib.sha1(sys.argv[1].encode()).hexdigest()[:8])" $wt)
  rm -rf $V/.cache/*-$tag $V/.cache/*-$tag-* 2>/dev/null
}
export -f run_one
printf '%s\n' $ids | xargs -P ${REF_P:-3} -I{} bash -c 'run_one {}' >> $log 2>&1
rm -rf /tmp/refrun
echo REFBATTERY-DONE >> $log
