#!/bin/bash
# Verify seeded changes against the CURRENT head of /repo in one scratch worktree and save them under /verif/seeded/<id>/.
#   usage: [SUFFIX=b] seedverify.sh <srcdir> <ID>...   (SUFFIX: save as /verif/seeded/<ID><SUFFIX>)
#   srcdir layout: <srcdir>/<ID>/{patch.diff, demo_<id>.rs, notes.md} or <srcdir>/<ID>/out/... is NOT searched: pass the dir that holds them
#   old usage line:        srcdir/<ID>/{patch.rebased.diff|patch.diff, demo_<id>.rs, notes.md}
# For each id: demo without the change (expect ok) -> apply -> lib suite (expect 41 pass) -> demo with the change (expect FAIL).
src=$1; shift
wt=/tmp/seedverify
export CARGO_TARGET_DIR=/tmp/seedverify-target CARGO_NET_OFFLINE=true
git -C /repo worktree remove --force $wt 2>/dev/null
git -C /repo worktree add -q --detach $wt HEAD || exit 1
for id in "$@"; do
  idl=$(echo $id | tr A-Z a-z)
  p=$src/$id/patch.rebased.diff; [ -f $p ] || p=$src/$id/patch.diff
  demo=$src/$id/demo_$idl.rs
  cd $wt; git checkout -q -- .; rm -f tests/demo_*.rs; cp $demo tests/
  feat=""; [ -f $src/$id/features ] && feat="--no-default-features --features $(cat $src/$id/features)"
  out=$(mktemp)
  echo "head: $(git -C /repo rev-parse --short HEAD)  patch: $(basename $p)" >> $out
  echo "== demo without the change (expect ok)" >> $out
  cargo test --offline $feat --test demo_$idl 2>&1 | grep -E "^test result|^test .* (ok|FAILED)|^error" | head -8 >> $out
  if ! git apply $p; then echo "PATCH DOES NOT APPLY" >> $out; else
    echo "== lib suite with the change (expect 41 passed)" >> $out
    cargo test --workspace --offline --lib 2>&1 | grep -E "^test result|^error" | head -2 >> $out
    echo "== demo with the change (expect FAILED)" >> $out
    cargo test --offline $feat --test demo_$idl 2>&1 | grep -E "^test result|^test .* (ok|FAILED)|^error" | head -8 >> $out
  fi
  dst=/verif/seeded/$id${SUFFIX:-}
  mkdir -p $dst
  cp $p $dst/patch.diff
  [ "$(basename $p)" = patch.rebased.diff ] && cp $src/$id/patch.diff $dst/patch.original.diff
  cp $demo $dst/
  [ -f $src/$id/notes.md ] && cp $src/$id/notes.md $dst/notes.md
  cp $out $dst/verify.txt; rm -f $out
  echo "---- $id"; cat $dst/verify.txt
done
cd /; git -C /repo worktree remove --force $wt; rm -rf /tmp/seedverify-target
