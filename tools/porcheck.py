#!/usr/bin/env python3-vt
"""Self-check of the partial-order reduction: for each system-level program explore with and without sleep sets and
compare the sets of outcomes (callback sequence of each actor, result sequence of each client, set of task endings) at
quiescent leaves.  An outcome that only the unreduced exploration reaches means a footprint (dependency) is missing.
usage: porcheck.py [tier] [max seconds per unreduced exploration] [program names...]"""
import os
import re
import sys
import time
ROOT = os.path.dirname(os.path.dirname(os.path.abspath(__file__)))
sys.path.insert(0, os.path.join(ROOT, 'mirse'))
sys.path.insert(0, ROOT)
import mir, mirdump, run_sys          # noqa: E402
from check import hannibal_enums      # noqa: E402
from engine import Unsupported        # noqa: E402

tier = sys.argv[1] if len(sys.argv) > 1 else 'quick'
cap = float(sys.argv[2]) if len(sys.argv) > 2 else 60.0
only = set(sys.argv[3:])
repo = mirdump.REPO
fs = mir.parse_mir(mirdump.dump(repo)[0])


def canon(tr):
    cb = {}
    for e in tr:
        if e[0] in ('user_call', 'user_done', 'user_abandoned'):
            cb.setdefault(e[3], []).append((e[0], e[1], str(e[4]) if len(e) > 4 else ''))
    ops = {}
    for e in tr:
        if e[0] == 'op_end':
            ops.setdefault(e[1], []).append((e[3], str(e[4])))
    # (labels such as havoc(stopped#3) carry a global running number: the order of independent callbacks of different
    # actors is exactly what the reduction may commute, so the number is not part of the outcome)
    other = frozenset((e[0],) + tuple(re.sub(r'#\d+', '#', str(x)) for x in e[1:3]) for e in tr if e[0] in ('userfut_run', 'task_done', 'task_cancelled', 'task_panicked'))
    out = (tuple(sorted((k, tuple(v)) for k, v in cb.items())), tuple(sorted((k, tuple(v)) for k, v in ops.items())), other)
    # instances / contexts / loop tasks are numbered in the global order of their creation: two schedules that differ only
    # in which of two independent spawns came first are the same outcome up to that renaming -> canonical = the smallest
    # rendering over all consistent renamings (instK, ctxK and loopK are renamed together)
    ids = sorted(set(int(x) for x in re.findall(r'\binst(\d+)\b', repr(out))))
    if len(ids) < 2 or len(ids) > 4:
        return repr((out[0], out[1], sorted(out[2], key=str)))
    import itertools

    def ren(x, mp):
        # instK and ctxK count from 0, the loop task of instance K is loop(K+1)
        def f(m):
            k = int(m.group(2)) - (1 if m.group(1) == 'loop' else 0)
            return m.group(1) + '@' + str(mp.get(k, k))
        return re.sub(r'\b(inst|ctx|loop)(\d+)\b', f, x)
    best = None
    for perm in itertools.permutations(ids):
        mp = dict(zip(ids, perm))
        cbs = tuple(sorted((ren(k, mp), tuple(v)) for k, v in cb.items()))
        opp = tuple(sorted((k, tuple((a, ren(b, mp)) for a, b in v)) for k, v in ops.items()))
        oth = sorted(tuple(ren(str(x), mp) for x in e) for e in out[2])
        t2 = repr((cbs, opp, oth))
        best = t2 if best is None or t2 < best else best
    return best


bad = 0
for spec in run_sys.mailbox_programs(tier):
    if only and spec['name'] not in only:
        continue
    res = {}
    skipped = False
    for use in (True, False):
        sy, p = run_sys.make_program(fs, hannibal_enums(), repo, spec)
        p.use_sleep_sets = use
        outs, n, t0 = set(), 0, time.time()
        try:
            for leaf in p.explore(p.setup()):
                n += 1
                if leaf.status == 'quiescent':
                    outs.add(canon(leaf.events))
                if not use and time.time() - t0 > cap:
                    skipped = True
                    break
        except Unsupported as ex:
            print(spec['name'], 'unsupported:', str(ex)[:100])
            skipped = True
        res[use] = (n, outs)
        if skipped:
            break
    if skipped:
        print(f"{spec['name']}: skipped (unreduced exploration exceeds {cap:.0f} s)")
        continue
    lost = res[False][1] - res[True][1]
    print(f"{spec['name']}: reduced {res[True][0]} schedules / {len(res[True][1])} outcomes, unreduced {res[False][0]} / {len(res[False][1])}, lost {len(lost)}")
    if lost:
        bad += 1
        print('   LOST', str(sorted(lost, key=str)[0])[:500])
print('PORCHECK', 'FAILED' if bad else 'ok', bad)
sys.exit(1 if bad else 0)
