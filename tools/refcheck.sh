#!/bin/bash
# usage: refcheck.sh <tree> [props...] - run the checks against a behaviour-preserving variant of the tree: every check
# must exit 0 (an exit 1 is a false alarm of the machinery, an exit 2 a construct it does not understand)
tree=$1; shift
props=${@:-C01 C02 C03 C04 C05 C06 C07 C08 C09 C10 C11 C12 C13 C14 C15 C16 C17 C18}
tag=$(basename $tree)
res=""
for p in $props; do
  out=$(VERIF_REPO=$tree VERIF_EVID=/tmp/refrun/evid-$tag VERIF_REPLAYS=/tmp/refrun/replays-$tag python3-vt ${V:-/verif}/check.py $p 2>&1); rc=$?
  res="$res $p:$rc"
  if [ $rc -ne 0 ]; then echo "$out" | grep -E "VIOLATION|^INCONCLUSIVE|^   C" | head -4 | cut -c1-300; fi
done
echo "REFACTOR $tag =>$res"
