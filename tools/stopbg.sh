#!/bin/bash
# stop background mutant batteries started from this session (safe to call from any shell)
for p in $(ps -eo pid,args | grep -E "tools/mutcheck|tools/battery" | grep -v grep | awk '{print $1}'); do kill $p 2>/dev/null; done
sleep 1
for p in $(ps -eo pid,args | grep -E "check.py C[0-9]" | grep -v grep | awk '{print $1}'); do kill $p 2>/dev/null; done
git -C /repo worktree prune
rm -rf /tmp/mutrun /tmp/verif-snap /verif/.cache/replay-*-???????? /verif/.cache/mir-target-????????* /verif/.cache/entry-crate-* /verif/.cache/entry-target-*-????????
echo stopped
