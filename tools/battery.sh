#!/bin/bash
# usage: battery.sh <logfile> "<ID props...>" ...   - runs mutcheck for each spec, 4 in parallel
log=$1; shift
: > $log
printf '%s\n' "$@" | xargs -P 4 -I{} bash -c '/verif/tools/mutcheck.sh {} 2>&1 | tail -6' >> $log 2>&1
echo BATTERY-DONE >> $log
