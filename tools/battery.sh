#!/bin/bash
# usage: battery.sh <logfile> "<ID props...>" ...   - runs mutcheck for each spec, 4 in parallel, on a snapshot of /verif
# (so that /verif can be edited meanwhile); snapshot and its caches are removed at the end
log=$1; shift
: > $log
snap=/tmp/verif-snap
rm -rf $snap; mkdir -p $snap
rsync -a --exclude .cache --exclude .git --exclude 'target*' /verif/ $snap/
export VERIF_ROOT=$snap
printf '%s\n' "$@" | xargs -P ${BATTERY_P:-4} -I{} bash -c "$snap/tools/mutcheck.sh {} 2>&1 | tail -8" >> $log 2>&1
rm -rf $snap
echo BATTERY-DONE >> $log
