#!/usr/bin/env python3
"""usage: matrix.py <battery log>...   - rebuild DESIGN.md section 10 (detection matrix) and seeded/*/meta.json `detected_by`
from the MUTANT lines of one or more battery logs (later logs override earlier ones)."""
import json
import os
import re
import sys

ROOT = os.path.dirname(os.path.dirname(os.path.abspath(__file__)))
res = {}
for log in sys.argv[1:]:
    for line in open(log, errors='replace'):
        m = re.match(r'^MUTANT (\S+) =>(.*)$', line.strip())
        if m:
            res.setdefault(m.group(1), {}).update(dict(x.split(':') for x in m.group(2).split()))   # later logs refine earlier rows


def what(mid):
    p = os.path.join(ROOT, 'seeded', mid, 'notes.md')
    if not os.path.exists(p):
        return ''
    txt = open(p).read()
    # first heading or first non-empty line
    for ln in txt.splitlines():
        ln = ln.strip().lstrip('#').strip()
        if ln:
            return re.sub(r'\s+', ' ', ln)[:150]
    return ''


rows = ["| seeded change | summary (from the author's notes) | checks that exit 1 | checks that exit 2 |", "|---|---|---|---|"]
missed = []
for mid in sorted(res, key=lambda s: (s[:3], s[3:])):
    r = res[mid]
    hit = [k for k, v in sorted(r.items()) if v == '1']
    inc = [k for k, v in sorted(r.items()) if v == '2']
    rows.append(f"| {mid} | {what(mid)} | {', '.join(hit) or '—'} | {', '.join(inc) if len(inc) < 6 else str(len(inc)) + ' checks'} |")
    if not hit:
        missed.append(mid)
    mp = os.path.join(ROOT, 'seeded', mid, 'meta.json')
    if os.path.exists(mp):
        meta = json.load(open(mp))
        meta['detected_by'] = ', '.join(hit)
        meta['inconclusive_in'] = ', '.join(inc)
        json.dump(meta, open(mp, 'w'), indent=1)
own = sum(1 for mid, r in res.items() if r.get(mid[:3]) == '1')
txt = f"""## 10. Detection matrix

Every seeded change was applied to a scratch worktree of the current head (never to /repo) and all 18 checks were run against
it (`tools/battery.sh`, quick tier, on a snapshot of /verif). Five independent rounds of sub-agents produced {len(res)} changes
(suffix none / b / c / d / e); each compiles, passes the 41 tests and fails its own demo (see `seeded/<id>/verify.txt`). On the unchanged
tree every check exits 0. Exit 1 = violation reported (natively confirmed where the program can be replayed), exit 2 =
inconclusive (the change uses something a program or level could not execute; not counted as a detection).

{len(res) - len(missed)} of {len(res)} changes are caught by at least one check, {own} of them by the check of the property they were written
against{'; not caught: ' + ', '.join(missed) if missed else ''}.

""" + (open(os.path.join(ROOT, 'tools', 'matrix_note.md')).read() + "\n" if os.path.exists(os.path.join(ROOT, 'tools', 'matrix_note.md')) else '') + "\n".join(rows) + "\n"
d = open(os.path.join(ROOT, 'DESIGN.md')).read()
i = d.index('## 10. Detection matrix')
j = d.find('\n## 11.', i)
d = d[:i] + txt + (d[j:] if j >= 0 else '')
open(os.path.join(ROOT, 'DESIGN.md'), 'w').write(d)
print(f"{len(res)} changes, missed: {missed}")
