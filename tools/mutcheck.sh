#!/bin/bash
# usage: mutcheck.sh <ID> [props...]
# apply mutant <ID> to a scratch worktree of /repo's HEAD (never to /repo itself), run the checks against it, clean up.
id=$1; shift
V=${VERIF_ROOT:-/verif}
patch=$V/seeded/$id/patch.diff
props=${@:-C01 C02 C03 C04 C05 C06 C07 C08 C09 C10 C11 C12 C13 C14 C15 C16 C17 C18}
wt=/tmp/mutrun/$id
rm -rf $wt; mkdir -p /tmp/mutrun; git -C /repo worktree prune
git -C /repo worktree add --detach $wt HEAD >/dev/null 2>&1 || { echo "worktree failed"; exit 9; }
git -C $wt apply $patch || { echo "patch does not apply"; git -C /repo worktree remove --force $wt; exit 9; }
res=""
for p in $props; do
  out=$(VERIF_REPO=$wt VERIF_EVID=/tmp/mutrun/evid-$id VERIF_REPLAYS=/tmp/mutrun/replays-$id python3-vt $V/check.py $p 2>&1); rc=$?
  res="$res $p:$rc"
  if [ $rc -ne 0 ]; then echo "$out" | grep -E "VIOLATION|INCONCLUSIVE|^   " | head -3 | cut -c1-240; fi
done
git -C /repo worktree remove --force $wt
# build outputs made for this scratch tree
tag=$(python3 -c "import hashlib,sys;print(hashlib.sha1(sys.argv[1].encode()).hexdigest()[:8])" $wt)
rm -rf $V/.cache/*-$tag $V/.cache/*-$tag-* 2>/dev/null
true
echo "MUTANT $id =>$res"
