#!/usr/bin/env python3
"""(re)generate MANIFEST.json from the table below"""
import json, os, subprocess
ROOT = os.path.dirname(os.path.dirname(os.path.abspath(__file__)))
props = [json.loads(l) for l in open(os.path.join(ROOT, 'properties.jsonl'))]
BASE = "cd /repo && (cargo nextest run --workspace --no-fail-fast --tool-config-file pb:/w/lib/nextest.toml --profile pb --test-threads 8 --offline || cargo test --workspace --no-fail-fast --offline)"
LOOP = "loop level: every path of the real event-loop coroutines (create_loop, create_loop_on_stream, timeout_fut incl. the select! expansion, the three refresh strategies; MIR regenerated from /repo) executed symbolically against an arbitrary bounded environment, z3 deciding every branch"
SYS = "system level: closed programs (actor + clients using every handle kind) executed on hannibal's own MIR with Python models of alloc/futures below it; every order of task polls explored, capacity symbolic where stated; sampled schedules and every counterexample are replayed poll-by-poll on the real crates"
TECH = "symbolic execution of rustc MIR + z3 (bounded), native replay of counterexamples"
NOTE_SYS = "Trusted: rustc's MIR dump; the Python models of Arc/Weak, futures mpsc/oneshot/Shared/SinkExt::send, Option/Result combinators (validated every run by replaying sampled schedules on the real crates and requiring identical traces); single-threaded executor. Outside: programs/schedules beyond the listed bounds, multi-threaded preemption inside a poll, real timers."
NOTE_LOOP = "Trusted: rustc's MIR dump, the Python models of core/futures adapters listed in the evidence, the bounded environment model. Outside: the channel, handles, real timers, multi-threaded schedulers."
claimed = {
 'C01': (SYS + "; oracle: handlers never overlap, at-most-once, completed-before order respected across waiting/forcing paths and clients. Plus the " + LOOP + " (handler invocations sequential).", NOTE_SYS),
 'C02': (SYS + "; oracle: Ok results carry the response of the caller's own message handled exactly once; at quiescence no operation is unresolved. Plus loop level: notifier dropped or fired and mailbox dropped on every end.", NOTE_SYS),
 'C03': (LOOP + "; the callback protocol is asserted on every path. Plus the " + SYS + "; oracle: per actor the callbacks follow the lifecycle automaton (started first and complete, no overlap, nothing after a failed started, stopped last before an Ok end, nothing after the end) on every explored schedule of every program.", NOTE_SYS),
 'C04': (SYS + "; oracle: stop barrier over begin/return stamps of operations. Plus " + LOOP + " (Stop is a barrier, notifier fires after stopped() and only on graceful ends).", NOTE_SYS),
 'C05': (SYS + "; ghost set of live strong handles; weak upgrades, premature stops and drain-then-stop after the last drop are asserted.", NOTE_SYS),
 'C07': (LOOP + "; strategy dispatch through the real refresh bodies, callback order, failing started during restart. Plus " + SYS + " with timers registered in started() on a virtual clock: ticks of a previous incarnation's timers after a restart are violations; programs strategy_*: every builder chain x spawn/spawn_owning followed by call, restart, call, stop - the strategy that serves the restart, as bound by the generic arguments along the real call path (tracked by the engine, defaults read from the type declarations), must be the one the chain names (confirmed natively by hv-entry strategies).", NOTE_SYS),
 'C06': (SYS + "; faults: the actor task is cancelled at any scheduler step, a handler panics (unwinding along the MIR cleanup edges), started fails; afterwards every pending and later operation must resolve with an error, nothing is handled, timers stop. Plus loop level: on every failing end the notifier is dropped un-notified and mailbox and context are dropped.", NOTE_SYS + " Children (released and stopping gracefully when the parent is killed or panics) and the registry (a killed service is treated as not running) are covered by the children_* / registry_service_killed programs."),
 'C10': (SYS + "; timers registered by started() run as real MIR (Context::interval/interval_with/delayed_send/delayed_exec, spawn_task, TokioSpawner) against a virtual clock that the scheduler may advance at any step; periods, exactly-once, no delivery after termination, no leaked timer task.", NOTE_SYS + " tokio::spawn / tokio::time::sleep are modelled (task table, virtual clock); durations are small concrete tick counts."),
 'C11': (LOOP + "; timer and handler become ready at arbitrary polls, timeout/fail_on_timeout symbolic. Plus the " + SYS + "; programs timeout_*: EnvironmentConfig{timeout: Some(T ticks), fail_on_timeout} set through the real with_config, futures_timer::Delay on the virtual clock, clients create idle gaps with sleep: a handler is abandoned only after its full budget T counted from its own start, never without a timeout; fail_on_timeout ends the actor with an error, otherwise the loop goes on.", NOTE_SYS + " The timeout programs are not replayed natively (real timers)."),
 'C12': (SYS + "; bounded(n) with n symbolic in 0..3: z3 is asked on every schedule whether #(sends returned Ok) - #(taken) can exceed n.", NOTE_SYS),
 'C13': (LOOP + "; item order, completion and finished/stopped protocol of stream-attached actors. Plus the " + SYS + "; programs stream_*: create_loop_on_stream from MIR on a scripted stream (a queue fed and closed by a producer task), messages interleaved with items, stop / last drop while the stream never ends: items handled exactly once in stream order, finished then stopped exactly once, Ok end, the stream is not polled after its end, the actor does not outlive the end of its stream.", NOTE_SYS + " The stream programs are not replayed natively (select!'s random branch order cannot be scheduled)."),
 'C14': (SYS + "; stopped()/running()/WeakAddr::stopped() compared with the loop's termination on awaited and un-awaited histories.", NOTE_SYS),
 'C15': (SYS + "; conversion/drop programs leaving one strong kind; upgrades and ctx.stop from a handler must succeed.", NOTE_SYS),
}
extra = json.load(open(os.path.join(ROOT, 'tools', 'manifest_extra.json'))) if os.path.exists(os.path.join(ROOT, 'tools', 'manifest_extra.json')) else {}
for k, v in extra.get('claimed', {}).items():
    claimed[k] = tuple(v)
checks = []
for pid in sorted(claimed):
    text, note = claimed[pid]
    checks.append(dict(property_id=pid, quick_cmd=f"python3-vt /verif/check.py {pid} --tier quick",
        thorough_cmd=f"python3-vt /verif/check.py {pid} --tier thorough", evidence_file=f"/verif/evidence/{pid}.json",
        replay_cmd_template=f"python3-vt /verif/check.py {pid} --replay {{path}}", engine="mirse",
        level_claimed=dict(category="model_checking", text=text, design_ref="DESIGN.md sections 3-5"),
        level_note=note, technique=TECH))
na_reason = extra.get('not_applicable', {})
na = []
for p in props:
    if p['id'] in claimed:
        continue
    na.append(dict(property_id=p['id'], reason=na_reason.get(p['id'], "not claimed yet: check under construction (see DESIGN.md)")))
hooks_commits = subprocess.check_output(['git', '-C', '/repo', 'log', '--format=%h %s', '981bde3..HEAD'], text=True).strip().split('\n')
m = dict(version=1, setup_cmd="python3-vt /verif/mirse/mirdump.py && python3-vt -c \"import sys; sys.path.insert(0,'/verif/mirse'); import replay, native_entry; print(replay.build()); print([native_entry.build(r) for r in native_entry.FEATURE])\"",
    hooks=dict(guard="cargo feature verif-hooks", enable="the native replay harness (/verif/replay) depends on hannibal with features=[\"verif-hooks\"]; the symbolic checks read the MIR of the default build and need no hook",
               baseline_off_cmd=BASE, source_commits=[c.split(' ')[0] for c in hooks_commits if 'verif hooks' in c], add_only=True),
    engines=[dict(name="mirse", path="/verif/mirse", serves_properties=sorted(claimed), kind_free_text="own symbolic executor for rustc MIR text dumps (Python) with z3 deciding path feasibility and data queries; native replayers /verif/replay (poll-exact schedules, tokio) and /verif/replay-rt (entry points per runtime feature)")],
    checks=checks, not_applicable=na, notes="see DESIGN.md; fixes to /repo: " + '; '.join(c for c in hooks_commits if ' fix:' in c))
json.dump(m, open(os.path.join(ROOT, 'MANIFEST.json'), 'w'), indent=1)
import jsonschema
jsonschema.validate(m, json.load(open('/root/.vp/MANIFEST.schema.json')))
print('manifest ok', sorted(claimed), 'NA', [x['property_id'] for x in na])
