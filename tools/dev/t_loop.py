import sys, time
sys.path.insert(0,'/verif/mirse'); sys.path.insert(0,'/verif')
import mir, mirdump
from scen_loop import LoopScenario
text, info = mirdump.dump('/repo'); fs = mir.parse_mir(text)
strat, to, msgs, polls = sys.argv[1], sys.argv[2]=='1', int(sys.argv[3]), int(sys.argv[4])
sc = LoopScenario(fs, {'Payload': ['Task', 'Stop', 'Restart']}, strategy=strat, stream=False, panics=False, max_msgs=msgs, max_polls=polls, max_pending=1, has_timeout=to)
sc.eng.max_paths = 5_000_000
t0=time.time(); n=0
for lf in sc.explore():
    n+=1
print(strat, to, msgs, polls, 'paths', n, 'engine paths', sc.eng.stats.paths, 'queries', sc.eng.stats.solver_calls, 'secs', round(time.time()-t0))
