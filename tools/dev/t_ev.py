import sys, os
sys.path.insert(0,'/verif/mirse'); sys.path.insert(0,'/verif')
import mir, mirdump, run_sys
from check import hannibal_enums
repo = os.environ.get('VERIF_REPO','/repo')
text, info = mirdump.dump(repo); fs = mir.parse_mir(text)
name=sys.argv[1]; kinds=set(sys.argv[2:])
spec=[s for s in run_sys.mailbox_programs('thorough') if s['name']==name][0]
sy,p=run_sys.make_program(fs,hannibal_enums(),repo,spec)
seen={}
for leaf in p.explore(p.setup()):
    for e in leaf.events:
        if e[0] in kinds:
            seen[tuple(map(str,e))]=seen.get(tuple(map(str,e)),0)+1
for k,v in sorted(seen.items()): print(v,k)
