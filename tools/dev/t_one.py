import sys
sys.path.insert(0,'/verif/mirse'); sys.path.insert(0,'/verif')
import mir, mirdump, run_sys
from check import hannibal_enums
repo = __import__('os').environ.get('VERIF_REPO','/repo')
text, info = mirdump.dump(repo)
fs = mir.parse_mir(text)
names = sys.argv[1:]
for spec in run_sys.mailbox_programs('thorough'):
    if spec['name'] not in names: continue
    sy, p = run_sys.make_program(fs, hannibal_enums(), repo, spec)
    st = p.setup(); n=0; bad={}; stat={}
    for leaf in p.explore(st):
        n+=1
        stat[leaf.status]=stat.get(leaf.status,0)+1
        tr = leaf.events[leaf.events.index(('setup_done',)) + 1:]
        ev = run_sys.evaluate(tr, leaf.status, spec['cap'], spec['scripts'], spec)
        for k,v in ev.items():
            for m in v:
                if (k,m) not in bad:
                    bad[(k,m)]=0
                    if '-v' in sys.argv:
                        for e in tr: print('   ', e)
                bad[(k,m)]+=1
    print(spec['name'], n, stat, bad)
