import sys, os
sys.path.insert(0,'/verif/mirse'); sys.path.insert(0,'/verif')
import mir, mirdump, run_sys
from check import hannibal_enums
repo = os.environ.get('VERIF_REPO','/repo')
text, info = mirdump.dump(repo); fs = mir.parse_mir(text)
spec=[s for s in run_sys.mailbox_programs('thorough') if s['name']==sys.argv[1]][0]
sy,p=run_sys.make_program(fs,hannibal_enums(),repo,spec)
st=p.setup()
for e in st.events: print('SETUP', tuple(map(str,e))[:6])
print('opaque', sy.eng.stats.opaque)
print({k:v for k,v in sy.eng.stats.modelled.items() if 'Clone' in k or 'clone' in k})
