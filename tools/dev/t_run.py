import sys, os
sys.path.insert(0,'/verif/mirse'); sys.path.insert(0,'/verif')
import mir, mirdump, run_sys
from check import hannibal_enums
repo = os.environ.get('VERIF_REPO','/repo')
names = sys.argv[1:]
orig = run_sys.mailbox_programs
run_sys.mailbox_programs = lambda tier: [p for p in orig(tier) if p['name'] in names]
text, info = mirdump.dump(repo)
fs = mir.parse_mir(text)
res, stats = run_sys.run(fs, hannibal_enums(), repo, 'quick')
for pid, rs in res.items():
    seen=set()
    for r in rs:
        k=(r['prog'], r['msg'])
        if k in seen: continue
        seen.add(k)
        print(pid, r['prog'], r['msg'][:150], 'native_confirmed=', r.get('native_confirmed'), (r.get('native_note') or '')[:200])
print({k: stats[k] for k in ('paths','traces_validated_against_impl','native_mismatches')}, stats.get('unsupported'))
