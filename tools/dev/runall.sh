#!/bin/bash
cd /verif
for p in C01 C02 C03 C04 C05 C06 C07 C08 C09 C10 C11 C12 C13 C14 C15 C16 C17 C18; do
  python3-vt check.py $p > /tmp/allchecks_$p.out 2>&1; rc=$?
  grep -v WARN /tmp/allchecks_$p.out | tail -3
  echo "EXIT $p $rc"
done
