//! Native replay of a schedule found by the symbolic checks: the same closed program (actor + client scripts) is run
//! on the REAL hannibal / futures / std code, with the tasks polled one at a time in the recorded order.
//!
//! input (stdin), one directive per line:
//!   cap unbounded | cap <n>
//!   strategy RestartOnly|RecreateFromDefault|NonRestartable
//!   pending <k>                      every handler invocation is Pending k times before it completes ...
//!   pendingfor <handler#> <k>        ... unless overridden for the n-th handler invocation
//!   script <client> <op> <args..> ; <op> <args..> ; ...
//!   pre <op> <args..>                synchronous operation executed before the tasks start
//!   sched <task> <task> ...          tasks: loop, client names
//! output (stdout): one event per line, same vocabulary as the symbolic trace.
use std::collections::HashMap;
use std::future::Future;
use std::io::Read;
use std::pin::Pin;
use std::sync::{Arc, Mutex};
use std::task::{Context as TaskCx, Poll, Waker};

use hannibal::prelude::*;
use hannibal::{Caller, RestartableActor, WeakAddr, WeakCaller, WeakSender};

type Log = Arc<Mutex<Vec<String>>>;

#[derive(Default)]
struct Probe {
    log: Option<Log>,
    pend: Arc<Mutex<(usize, HashMap<usize, usize>, usize)>>, // default pending, overrides, handler counter
}
impl Probe {
    fn ev(&self, s: String) {
        if let Some(l) = &self.log {
            l.lock().unwrap().push(s);
        }
    }
}
impl Actor for Probe {
    async fn started(&mut self, _ctx: &mut Context<Self>) -> DynResult<()> {
        self.ev("user_call started".into());
        self.ev("user_done started ok".into());
        Ok(())
    }
    async fn stopped(&mut self, _ctx: &mut Context<Self>) {
        self.ev("user_call stopped".into());
        self.ev("user_done stopped".into());
    }
}
impl RestartableActor for Probe {}

struct M(String);
impl Message for M {
    type Response = String;
}
struct U(String);
impl Message for U {
    type Response = ();
}

struct PendK(usize);
impl Future for PendK {
    type Output = ();
    fn poll(mut self: Pin<&mut Self>, _cx: &mut TaskCx<'_>) -> Poll<()> {
        if self.0 == 0 {
            Poll::Ready(())
        } else {
            self.0 -= 1;
            Poll::Pending
        }
    }
}

impl Probe {
    async fn handle_any(&mut self, ctx: &mut Context<Self>, id: &str) {
        let k = {
            let mut p = self.pend.lock().unwrap();
            p.2 += 1;
            let n = p.2;
            p.1.get(&n).copied().unwrap_or(p.0)
        };
        self.ev(format!("user_call handle {id}"));
        for _ in 0..k {
            PendK(1).await;
            // (each Pending is one poll of the loop task)
        }
        if id.starts_with("ctxstop") {
            let r = ctx.stop();
            self.ev(format!("script_result ctx.stop {}", fmt_unit(&r)));
        } else if id.starts_with("ctxrestart") {
            let r = ctx.restart();
            self.ev(format!("script_result ctx.restart {}", fmt_unit(&r)));
        } else if id.starts_with("ctxboth") {
            let r = ctx.stop();
            self.ev(format!("script_result ctx.stop {}", fmt_unit(&r)));
            let r = ctx.restart();
            self.ev(format!("script_result ctx.restart {}", fmt_unit(&r)));
        }
        self.ev(format!("user_done handle {id}"));
    }
}
impl Handler<M> for Probe {
    async fn handle(&mut self, ctx: &mut Context<Self>, msg: M) -> String {
        self.handle_any(ctx, &msg.0).await;
        format!("Response[{}]", msg.0)
    }
}
impl Handler<U> for Probe {
    async fn handle(&mut self, ctx: &mut Context<Self>, msg: U) {
        self.handle_any(ctx, &msg.0).await;
    }
}

fn fmt_err(e: &hannibal::error::ActorError) -> String {
    use hannibal::error::ActorError::*;
    match e {
        AsyncSendError(_) => "ActorError:SendError".into(),
        Canceled(_) => "ActorError:Canceled".into(),
        AlreadyStopped => "ActorError:AlreadyStopped".into(),
        other => format!("ActorError:{other:?}"),
    }
}
fn fmt_unit(r: &Result<(), hannibal::error::ActorError>) -> String {
    match r {
        Ok(()) => "Ok".into(),
        Err(e) => format!("Err({})", fmt_err(e)),
    }
}
fn fmt_resp(r: &Result<String, hannibal::error::ActorError>) -> String {
    match r {
        Ok(s) => format!("Ok({s})"),
        Err(e) => format!("Err({})", fmt_err(e)),
    }
}

enum H {
    Addr(Addr<Probe>),
    Sender(Sender<U>),
    Caller(Caller<M>),
    WeakAddr(WeakAddr<Probe>),
    WeakSender(WeakSender<U>),
    WeakCaller(WeakCaller<M>),
    /// a `Sender::send` future that was created by `prepare_send` and is awaited later by `prepared_send`
    Prepared(Pin<Box<dyn Future<Output = hannibal::error::Result<()>> + Send>>),
}

type OpFut = Pin<Box<dyn Future<Output = String>>>;

struct Client {
    name: String,
    ops: Vec<Vec<String>>,
    pc: usize,
    cur: Option<OpFut>,
    done: bool,
}

mod findings;

fn main() {
    let args: Vec<String> = std::env::args().collect();
    if args.len() > 2 && args[1] == "finding" {
        std::process::exit(findings::run(&args[2]));
    }
    let mut input = String::new();
    std::io::stdin().read_to_string(&mut input).unwrap();
    let mut cap: Option<usize> = None;
    let mut strategy = "RestartOnly".to_string();
    let mut clients: Vec<Client> = vec![];
    let mut sched: Vec<String> = vec![];
    let mut pre: Vec<Vec<String>> = vec![];
    let pend = Arc::new(Mutex::new((0usize, HashMap::new(), 0usize)));
    for line in input.lines() {
        let line = line.trim();
        if line.is_empty() || line.starts_with('#') {
            continue;
        }
        let mut it = line.splitn(2, ' ');
        let key = it.next().unwrap();
        let rest = it.next().unwrap_or("");
        match key {
            "cap" => cap = if rest == "unbounded" { None } else { Some(rest.parse().unwrap()) },
            "strategy" => strategy = rest.to_string(),
            "pending" => pend.lock().unwrap().0 = rest.parse().unwrap(),
            "pendingfor" => {
                let v: Vec<usize> = rest.split_whitespace().map(|x| x.parse().unwrap()).collect();
                pend.lock().unwrap().1.insert(v[0], v[1]);
            }
            "script" => {
                let mut it = rest.splitn(2, ' ');
                let name = it.next().unwrap().to_string();
                let ops = it
                    .next()
                    .unwrap_or("")
                    .split(';')
                    .map(|o| o.split_whitespace().map(String::from).collect::<Vec<_>>())
                    .filter(|o: &Vec<String>| !o.is_empty())
                    .collect();
                clients.push(Client { name, ops, pc: 0, cur: None, done: false });
            }
            "sched" => sched.extend(rest.split_whitespace().map(String::from)),
            "pre" => pre.push(rest.split_whitespace().map(String::from).collect()),
            _ => panic!("unknown directive {key}"),
        }
    }
    let log: Log = Arc::new(Mutex::new(vec![]));
    let actor = Probe { log: Some(log.clone()), pend: pend.clone() };
    let (lp, addr) = match strategy.as_str() {
        "RestartOnly" => hannibal::verif_hooks::event_loop(actor, cap, None, false),
        "RecreateFromDefault" => hannibal::verif_hooks::event_loop_recreating(actor, cap, None, false),
        _ => hannibal::verif_hooks::event_loop_non_restartable(actor, cap, None, false),
    };
    let mut lp = Some(lp);
    let handles: std::rc::Rc<std::cell::RefCell<HashMap<String, H>>> = Default::default();
    handles.borrow_mut().insert("addr".into(), H::Addr(addr));
    for op in &pre {
        match start_op(&handles, op) {
            Started::Done(_) => {}
            Started::Fut(_) => panic!("pre operations must be synchronous"),
        }
    }
    let mut out: Vec<String> = vec![];
    let flush = |out: &mut Vec<String>, log: &Log| {
        out.append(&mut log.lock().unwrap());
    };
    let mut cx = TaskCx::from_waker(Waker::noop());
    println!("setup_done");
    for name in sched {
        out.push(format!("sched {name}"));
        if name == "loop" {
            if let Some(f) = lp.as_mut() {
                let r = f.as_mut().poll(&mut cx);
                flush(&mut out, &log);
                if let Poll::Ready(res) = r {
                    out.push(format!("task_done loop {}", if res.is_ok() { "Ok(actor)" } else { "Err" }));
                    lp = None;
                }
            } else {
                out.push("replay_error loop polled after completion".into());
            }
            continue;
        }
        let c = clients.iter_mut().find(|c| c.name == name).expect("unknown task");
        if c.cur.is_none() {
            if c.pc >= c.ops.len() {
                if !c.done {
                    c.done = true;
                    out.push(format!("client_done {name}"));
                }
                continue;
            }
            let op = c.ops[c.pc].clone();
            let arg = op.get(1).cloned().unwrap_or_default();
            out.push(format!("op_begin {name} {} {} {arg}", c.pc, op[0]));
            match start_op(&handles, &op) {
                Started::Done(res) => {
                    flush(&mut out, &log);
                    out.push(format!("op_end {name} {} {} {res}", c.pc, op[0]));
                    c.pc += 1;
                    continue;
                }
                Started::Fut(f) => c.cur = Some(f),
            }
        }
        let f = c.cur.as_mut().unwrap();
        let r = f.as_mut().poll(&mut cx);
        flush(&mut out, &log);
        if let Poll::Ready(res) = r {
            let op = &c.ops[c.pc];
            out.push(format!("op_end {name} {} {} {res}", c.pc, op[0]));
            c.cur = None;
            c.pc += 1;
        }
    }
    flush(&mut out, &log);
    for l in out {
        println!("{l}");
    }
}

/// a liveness query; a panic inside it is an outcome to report ("panic"), not a crash of the replayer
fn flag(f: impl FnOnce() -> bool) -> String {
    let hook = std::panic::take_hook();
    std::panic::set_hook(Box::new(|_| {}));
    let r = std::panic::catch_unwind(std::panic::AssertUnwindSafe(f));
    std::panic::set_hook(hook);
    match r {
        Ok(true) => "1".into(),
        Ok(false) => "0".into(),
        Err(_) => "panic".into(),
    }
}

enum Started {
    Done(String),
    Fut(OpFut),
}

fn start_op(handles: &std::rc::Rc<std::cell::RefCell<HashMap<String, H>>>, op: &[String]) -> Started {
    let k = op[0].as_str();
    let mut hs = handles.borrow_mut();
    let a1 = op.get(1).cloned().unwrap_or_default();
    let a2 = op.get(2).cloned().unwrap_or_default();
    macro_rules! addr {
        () => {
            match hs.get(&a1) {
                Some(H::Addr(a)) => a.clone(),
                _ => panic!("{a1} is not an Addr"),
            }
        };
    }
    match k {
        "call" => {
            let a = addr!();
            Started::Fut(Box::pin(async move { fmt_resp(&a.call(M(a2)).await) }))
        }
        "send" => {
            let a = addr!();
            Started::Fut(Box::pin(async move { fmt_unit(&a.send(U(a2)).await) }))
        }
        "ping" => {
            let a = addr!();
            Started::Fut(Box::pin(async move { fmt_unit(&a.ping().await) }))
        }
        "stop" => match hs.get_mut(&a1) {
            Some(H::Addr(a)) => Started::Done(fmt_unit(&a.stop())),
            _ => panic!(),
        },
        "restart" => match hs.get_mut(&a1) {
            Some(H::Addr(a)) => Started::Done(fmt_unit(&a.restart())),
            _ => panic!(),
        },
        "halt" => match hs.remove(&a1) {
            Some(H::Addr(a)) => Started::Fut(Box::pin(async move { fmt_unit(&a.halt().await) })),
            _ => panic!(),
        },
        "await" => {
            let a = addr!();
            Started::Fut(Box::pin(async move { fmt_unit(&a.await) }))
        }
        "await_mut" => {
            // (&mut addr).await: the handle stays with the client and is used again afterwards
            let hs2 = handles.clone();
            match hs.remove(&a1) {
                Some(H::Addr(mut a)) => Started::Fut(Box::pin(async move {
                    let r = (&mut a).await;
                    hs2.borrow_mut().insert(a1, H::Addr(a));
                    fmt_unit(&r)
                })),
                _ => panic!(),
            }
        }
        "clone" => {
            let a = addr!();
            hs.insert(a2.clone(), H::Addr(a));
            Started::Done(a2)
        }
        "drop" => {
            hs.remove(&a1);
            Started::Done(a1)
        }
        "mk_sender" => {
            let a = addr!();
            hs.insert(a2.clone(), H::Sender(a.sender::<U>()));
            Started::Done(a2)
        }
        "mk_caller" => {
            let a = addr!();
            hs.insert(a2.clone(), H::Caller(a.caller::<M>()));
            Started::Done(a2)
        }
        "mk_weak_sender" => {
            let a = addr!();
            hs.insert(a2.clone(), H::WeakSender(a.weak_sender::<U>()));
            Started::Done(a2)
        }
        "mk_weak_caller" => {
            let a = addr!();
            hs.insert(a2.clone(), H::WeakCaller(a.weak_caller::<M>()));
            Started::Done(a2)
        }
        "downgrade" => {
            let a = addr!();
            hs.insert(a2.clone(), H::WeakAddr(a.downgrade()));
            Started::Done(a2)
        }
        "sender_send" => match hs.get(&a1) {
            Some(H::Sender(s)) => {
                let f = s.send(U(a2));
                Started::Fut(Box::pin(async move { fmt_unit(&f.await) }))
            }
            _ => panic!(),
        },
        "prepare_send" => match hs.get(&a1) {
            Some(H::Sender(s)) => {
                let f = s.send(U(a2));
                let slot = op.get(3).cloned().unwrap_or_default();
                hs.insert(slot.clone(), H::Prepared(f));
                Started::Done(slot)
            }
            _ => panic!(),
        },
        "prepared_send" => match hs.remove(&a1) {
            Some(H::Prepared(f)) => Started::Fut(Box::pin(async move { fmt_unit(&f.await) })),
            _ => panic!(),
        },
        "caller_call" => match hs.get(&a1) {
            Some(H::Caller(c)) => {
                // Caller::call borrows the caller: keep a clone alive inside the future instead
                let c2 = c.clone();
                Started::Fut(Box::pin(async move { fmt_resp(&c2.call(M(a2)).await) }))
            }
            _ => panic!(),
        },
        "weak_send" => match hs.get(&a1) {
            Some(H::WeakSender(w)) => {
                let w = w.clone();
                Started::Fut(Box::pin(async move { fmt_unit(&w.try_send(U(a2)).await) }))
            }
            _ => panic!(),
        },
        "weak_call" => match hs.get(&a1) {
            Some(H::WeakCaller(w)) => {
                let w = w.clone();
                Started::Fut(Box::pin(async move { fmt_resp(&w.try_call(M(a2)).await) }))
            }
            _ => panic!(),
        },
        "upgrade" => match hs.get(&a1) {
            Some(H::WeakAddr(w)) => {
                let r = w.upgrade();
                let s = if r.is_some() { "Some" } else { "None" };
                if let (Some(a), false) = (r, a2.is_empty()) {
                    hs.insert(a2, H::Addr(a));
                }
                Started::Done(s.into())
            }
            _ => panic!(),
        },
        "upgrade_sender" => match hs.get(&a1) {
            Some(H::WeakSender(w)) => {
                let r = w.upgrade();
                let s = if r.is_some() { "Some" } else { "None" };
                if let (Some(a), false) = (r, a2.is_empty()) {
                    hs.insert(a2, H::Sender(a));
                }
                Started::Done(s.into())
            }
            _ => panic!(),
        },
        "upgrade_caller" => match hs.get(&a1) {
            Some(H::WeakCaller(w)) => {
                let r = w.upgrade();
                let s = if r.is_some() { "Some" } else { "None" };
                if let (Some(a), false) = (r, a2.is_empty()) {
                    hs.insert(a2, H::Caller(a));
                }
                Started::Done(s.into())
            }
            _ => panic!(),
        },
        "stopped" => {
            let a = addr!();
            Started::Done(flag(|| a.stopped()))
        }
        "running" => {
            let a = addr!();
            Started::Done(flag(|| a.running()))
        }
        "weak_stopped" => match hs.get(&a1) {
            Some(H::WeakAddr(w)) => Started::Done(flag(|| w.stopped())),
            _ => panic!(),
        },
        "try_stop" => match hs.get_mut(&a1) {
            Some(H::WeakAddr(w)) => Started::Done(fmt_unit(&w.try_stop())),
            _ => panic!(),
        },
        _ => panic!("unknown op {k}"),
    }
}
