//! Native demonstrations of findings whose counterexamples involve real timers (they cannot be replayed poll by
//! poll because tokio's timers need its runtime).  Each prints CONFIRMED or NOT-REPRODUCED and exits 0 / 3.
use std::sync::{Arc, Mutex};
use std::time::Duration;

use hannibal::prelude::*;
use hannibal::RestartableActor;

pub fn run(which: &str) -> i32 {
    let rt = tokio::runtime::Builder::new_current_thread().enable_all().build().unwrap();
    let confirmed = match which {
        "c07-timers-survive-restart" => rt.block_on(c07_timers_survive_restart()),
        "c08-already-running-polarity" => rt.block_on(c08_already_running_polarity()),
        _ => {
            eprintln!("unknown finding {which}");
            return 2;
        }
    };
    if confirmed {
        println!("CONFIRMED {which}");
        0
    } else {
        println!("NOT-REPRODUCED {which}");
        3
    }
}

#[derive(Clone)]
struct Tick(u32);
impl Message for Tick {
    type Response = ();
}

struct Ticker {
    incarnation: u32,
    seen: Arc<Mutex<Vec<(u32, u32)>>>, // (incarnation that handled it, incarnation that registered the timer)
}
impl Actor for Ticker {
    async fn started(&mut self, ctx: &mut Context<Self>) -> DynResult<()> {
        self.incarnation += 1;
        ctx.interval(Tick(self.incarnation), Duration::from_millis(15));
        Ok(())
    }
}
impl RestartableActor for Ticker {}
impl Handler<Tick> for Ticker {
    async fn handle(&mut self, _ctx: &mut Context<Self>, msg: Tick) {
        self.seen.lock().unwrap().push((self.incarnation, msg.0));
    }
}

/// C07: after a restart (default strategy) the interval registered by the first incarnation must no longer fire.
async fn c07_timers_survive_restart() -> bool {
    let seen = Arc::new(Mutex::new(vec![]));
    let mut addr = Ticker { incarnation: 0, seen: seen.clone() }.spawn();
    tokio::time::sleep(Duration::from_millis(60)).await;
    addr.restart().unwrap();
    addr.ping().await.unwrap();
    tokio::time::sleep(Duration::from_millis(300)).await;
    addr.stop().unwrap();
    let _ = addr.await;
    // a tick registered by incarnation 1 handled by incarnation 2 well after the restart
    let late: Vec<_> = seen.lock().unwrap().iter().filter(|(by, reg)| *by == 2 && *reg == 1).cloned().collect();
    late.len() > 2
}

#[derive(Default)]
struct Svc;
impl Actor for Svc {}
impl Service for Svc {}

/// C08: already_running must report Some(true) for a registered live service and Some(false) once it terminated.
async fn c08_already_running_polarity() -> bool {
    let before = Svc::already_running().await;
    let mut addr = Svc::from_registry().await;
    addr.ping().await.unwrap();
    let alive = Svc::already_running().await;
    addr.stop().unwrap();
    let _ = addr.clone().await;
    let dead = Svc::already_running().await;
    println!("unregistered={before:?} alive={alive:?} terminated={dead:?}");
    before.is_none() && (alive != Some(true) || dead != Some(false))
}
