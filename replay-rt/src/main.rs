//! Runs every spawn entry point of hannibal on the runtime selected by the cargo feature, then the same tail program
//! the symbolic check uses (call, stop, await / join), and prints one line per entry point:
//!     <entry point> call=<..> stop=<..> end=<..>
//! Used to confirm counterexamples of C18 against the real runtimes and to validate the runtime contract models.
use std::time::Duration;

use futures::FutureExt as _;
use hannibal::{OwningAddr, RestartableActor, prelude::*, runtime, spawner::DefaultSpawnable};

#[derive(Default, Debug)]
struct Act;
impl Actor for Act {}
impl Service for Act {}

#[message(response = u32)]
struct M1;

impl Handler<M1> for Act {
    async fn handle(&mut self, _: &mut Context<Self>, _: M1) -> u32 {
        1
    }
}
impl StreamHandler<u32> for Act {
    async fn handle(&mut self, _: &mut Context<Self>, _: u32) {}
}

#[derive(Default, Debug)]
struct Plain;
impl Actor for Plain {}
impl RestartableActor for Plain {}
impl Handler<M1> for Plain {
    async fn handle(&mut self, _: &mut Context<Self>, _: M1) -> u32 {
        1
    }
}

#[derive(Default, Debug)]
struct Svc;
impl Actor for Svc {}
impl Service for Svc {}
impl Handler<M1> for Svc {
    async fn handle(&mut self, _: &mut Context<Self>, _: M1) -> u32 {
        1
    }
}
#[derive(Default, Debug)]
struct Svc2;
impl Actor for Svc2 {}
impl Service for Svc2 {}
impl Handler<M1> for Svc2 {
    async fn handle(&mut self, _: &mut Context<Self>, _: M1) -> u32 {
        1
    }
}

#[message(response = u32)]
struct Boom;
impl Handler<Boom> for Act {
    async fn handle(&mut self, _: &mut Context<Self>, _: Boom) -> u32 {
        panic!("boom")
    }
}

/// a handler panics: what the caller, the other addresses and join() observe (separate process: on some runtimes the
/// panic is re-raised in whoever awaits the task's handle)
async fn panics() {
    let mut o = Act.spawn_owning();
    let a = o.to_addr();
    let call = within(o.call(Boom)).await;
    let call2 = within(a.call(M1)).await;
    let aw = within(a).await;
    println!("own_join_after_panic-before-join call={} call2={} await={}", show(call), show(call2), show(aw));
    let end = within(o.join()).await;
    println!("own_join_after_panic join={}", show(end.map(|x| x.map(|_| "actor"))));
}

// ---- restart strategies through the builder terminals (C07): which callbacks serve a restart request
static LOG: std::sync::Mutex<Vec<&'static str>> = std::sync::Mutex::new(Vec::new());

#[derive(Debug)]
struct Rs(bool);
impl Default for Rs {
    fn default() -> Self {
        LOG.lock().unwrap().push("default");
        Rs(true)
    }
}
impl Actor for Rs {
    async fn started(&mut self, _: &mut Context<Self>) -> DynResult<()> {
        LOG.lock().unwrap().push("started");
        Ok(())
    }
    async fn stopped(&mut self, _: &mut Context<Self>) {
        LOG.lock().unwrap().push("stopped");
    }
}
impl RestartableActor for Rs {}
impl Handler<M1> for Rs {
    async fn handle(&mut self, _: &mut Context<Self>, _: M1) -> u32 {
        LOG.lock().unwrap().push("handle");
        1
    }
}

async fn strategy_tail(ep: &str, mut addr: Addr<Rs>, owning: Option<OwningAddr<Rs>>) {
    let _ = within(addr.call(M1)).await;
    LOG.lock().unwrap().push("|");
    let _ = addr.restart();
    let _ = within(addr.call(M1)).await;
    LOG.lock().unwrap().push("|");
    let _ = addr.stop();
    match owning {
        Some(mut o) => {
            let _ = within(o.join()).await;
        }
        None => {
            let _ = within(addr).await;
        }
    }
    let log: Vec<&str> = std::mem::take(&mut *LOG.lock().unwrap());
    let mid: Vec<&str> = log.split(|x| *x == "|").nth(1).unwrap_or(&[]).iter().copied().filter(|x| *x != "handle").collect();
    println!("strategy_{ep} restart={}", mid.join(","));
}

async fn strategies() {
    let own = |o: OwningAddr<Rs>| (o.to_addr(), Some(o));
    strategy_tail("spawn", Rs(false).spawn(), None).await;
    let (a, o) = own(Rs(false).spawn_owning());
    strategy_tail("spawn_owning", a, o).await;
    strategy_tail("build_spawn", hannibal::build(Rs(false)).unbounded().spawn(), None).await;
    let (a, o) = own(hannibal::build(Rs(false)).unbounded().spawn_owning());
    strategy_tail("build_spawn_owning", a, o).await;
    strategy_tail("build_recreate_spawn", hannibal::build(Rs(false)).unbounded().recreate_from_default().spawn(), None).await;
    let (a, o) = own(hannibal::build(Rs(false)).unbounded().recreate_from_default().spawn_owning());
    strategy_tail("build_recreate_spawn_owning", a, o).await;
    strategy_tail("build_non_restartable_spawn", hannibal::build(Rs(false)).unbounded().non_restartable().spawn(), None).await;
    let (a, o) = own(hannibal::build(Rs(false)).unbounded().non_restartable().spawn_owning());
    strategy_tail("build_non_restartable_spawn_owning", a, o).await;
}

// ---- the spawning task occupies its thread (no .await) while it waits for the actor's progress: inside
// hannibal::runtime::block_on the spawned actor must run on its own on every runtime
struct Rep(std::sync::mpsc::Sender<&'static str>);
impl Actor for Rep {
    async fn started(&mut self, _: &mut Context<Self>) -> DynResult<()> {
        self.0.send("started").ok();
        Ok(())
    }
    async fn stopped(&mut self, _: &mut Context<Self>) {
        self.0.send("stopped").ok();
    }
}

fn blocking() {
    let wait = Duration::from_millis(1500);
    let shown = |r: Result<&'static str, std::sync::mpsc::RecvTimeoutError>| r.map(|s| s.to_string()).unwrap_or_else(|_| "never".into());
    let scen = |ep: &str, mk: &dyn Fn(Rep) -> (Addr<Rep>, Option<OwningAddr<Rep>>)| {
        let (first, second) = runtime::block_on(async {
            let (tx, rx) = std::sync::mpsc::channel();
            let (mut addr, _o) = mk(Rep(tx));
            // no .await between the spawn call and these two waits
            let first = rx.recv_timeout(wait);
            let _ = addr.stop();
            let second = rx.recv_timeout(wait);
            (first, second)
        });
        println!("blocking_{ep} started={} stopped={}", shown(first), shown(second));
    };
    scen("spawn", &|r| (r.spawn(), None));
    scen("build_non_restartable_spawn", &|r| (hannibal::build(r).bounded(4).non_restartable().spawn(), None));
    scen("spawn_owning", &|r| {
        let o = r.spawn_owning();
        (o.to_addr(), Some(o))
    });
}

async fn within<F: Future>(f: F) -> Option<F::Output> {
    let t = runtime::sleep(Duration::from_millis(500)).fuse();
    let f = f.fuse();
    futures::pin_mut!(t, f);
    futures::select! { v = f => Some(v), _ = t => None }
}

fn show<T: std::fmt::Debug>(x: Option<T>) -> String {
    match x {
        None => "never".into(),
        Some(v) => format!("{v:?}").replace(' ', ""),
    }
}

async fn tail<A: Actor + Handler<M1>>(ep: &str, mut addr: Addr<A>) {
    // give the executor a chance to run (or cancel) the spawned task before we look
    runtime::sleep(Duration::from_millis(20)).await;
    let call = within(addr.call(M1)).await;
    let stop = addr.stop();
    let end = within(addr).await;
    println!("{ep} call={} stop={} end={}", show(call), show(Some(stop.map_err(|e| e.to_string()))), show(end));
}

async fn tail_owning<A: Actor + Handler<M1> + std::fmt::Debug>(ep: &str, mut o: OwningAddr<A>) {
    runtime::sleep(Duration::from_millis(20)).await;
    let call = within(o.call(M1)).await;
    let mut a = o.to_addr();
    let stop = a.stop();
    let end = within(o.join()).await;
    println!("{ep} call={} stop={} end={}", show(call), show(Some(stop.map_err(|e| e.to_string()))), show(end.map(|x| x.map(|_| "actor"))));
}

async fn run() {
    let pending = || futures::stream::pending::<u32>();
    tail("spawn", Act.spawn()).await;
    tail_owning("spawn_owning", Act.spawn_owning()).await;
    tail("spawn_default", Act::spawn_default().unwrap()).await;
    tail("spawn_on_stream", Act.spawn_on_stream(pending()).unwrap()).await;
    tail("build_spawn", hannibal::build(Act).unbounded().spawn()).await;
    tail("build_bounded_spawn", hannibal::build(Act).bounded(1).spawn()).await;
    tail_owning("build_spawn_owning", hannibal::build(Act).unbounded().spawn_owning()).await;
    tail("build_recreate_spawn", hannibal::build(Plain).unbounded().recreate_from_default().spawn()).await;
    tail("build_non_restartable_spawn", hannibal::build(Act).unbounded().non_restartable().spawn()).await;
    tail("build_stream_spawn", hannibal::build(Act).on_stream(pending()).spawn()).await;
    tail("build_bounded_stream_spawn", hannibal::build(Act).bounded_on_stream(1, pending()).spawn()).await;
    tail_owning("build_stream_spawn_owning", hannibal::build(Act).on_stream(pending()).spawn_owning()).await;
    {
        // an OwningAddr dropped without detach() while another strong address exists
        let o = Act.spawn_owning();
        let a = o.to_addr();
        drop(o);
        tail("own_drop_keeps_running", a).await;
    }
    tail("from_registry", Svc::from_registry().await).await;
    let (addr, _old) = hannibal::build(Svc2).unbounded().register().await.unwrap();
    tail("build_register", addr).await;
}

fn main() {
    if std::env::args().nth(1).as_deref() == Some("panics") {
        std::panic::set_hook(Box::new(|_| {}));
        runtime::block_on(panics());
        return;
    }
    if std::env::args().nth(1).as_deref() == Some("blocking") {
        blocking();
        return;
    }
    if std::env::args().nth(1).as_deref() == Some("strategies") {
        runtime::block_on(strategies());
        return;
    }
    runtime::block_on(run());
}
