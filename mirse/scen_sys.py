"""Whole-system scenarios: hannibal's own MIR (channel.rs, environment.rs, addr*.rs, context.rs, ...) is executed for
everything inside the crate; the crates below it are Python models (sysmodels.py); user code (Actor callbacks and
handlers) is the environment.  Tasks (actor loop, clients, timers) are coroutines polled by an explicit scheduler whose
choices fork the exploration, so every interleaving of polls within the bounds is covered.
"""
import re
import z3

from engine import (Engine, State, VSym, VAgg, VScalar, VRef, VConst, UNIT, TOMB, Unsupported, strip_generics,
                    _describe, _callee_short, _place_ty, _short_ty)
import models
import sysmodels as S
from sysmodels import some, ok, err, ready, NONE, PENDING, is_h, mget, mset, deref_arg, block_on
from models import R, _target_of_pin, _load, _store, peel, closure_body_of
from resolver import Resolver, base_name


class Sys:
    def __init__(self, functions, enums, repo, loop_bound=12):
        self.eng = e = Engine(functions, enums=enums, loop_bound=loop_bound)
        e.sys = self
        self.resolver = Resolver(functions, repo)
        e.tombstone_moves = True
        e.strict_opaque = True
        models.install_common(e)
        models.install_resolvers(e)
        S.install(e, self.resolver)
        import stdmodels
        stdmodels.install(e)
        e.leaf_poll = self.leaf_poll
        e.resolve_future_impl = self.resolve_future_impl
        e.drop_handler = self.on_drop
        e.conts['wrap_some'] = self.c_wrap_some
        e.conts['identity'] = self.c_identity
        e.conts['drop_fields'] = self.c_drop_fields
        e.conts['record'] = self.c_record
        M = e.models
        ins = lambda rx, h: M.insert(0, (R(rx), h))
        # environment: user code
        ins(r'^<A as (actor::)?Actor>::started$', self.m_user('started'))
        ins(r'^<A as (actor::)?Actor>::stopped$', self.m_user('stopped'))
        ins(r'^<A as (handler::)?Handler<.*>>::handle$', self.m_user('handle'))
        ins(r'^<A as (handler::)?StreamHandler<.*>>::handle$', self.m_user('stream'))
        ins(r'^<A as (handler::)?StreamHandler<.*>>::finished$', self.m_user('finished'))
        ins(r'^<(A|Self) as Default>::default$', self.m_default_actor)
        ins(r'^<R as (actor::restart_strategy::)?RestartStrategy<A>>::refresh$', self.m_refresh)
        # closures / dyn dispatch
        ins(r' as Fn(Once|Mut)?<.*>>::call(_once|_mut)?$', self.m_call_closure)
        ins(r'^(dyn_clone::)?clone_box::<', self.m_clone_box)
        ins(r'^<(.*) as ToOwned>::to_owned$', lambda e, st, fr, t, a: e.dispatch(st, fr, t, a, re.sub(r' as ToOwned>::to_owned$', ' as Clone>::clone', t.func)))
        # misc std
        ins(r'^std::any::type_name::<', lambda e, st, fr, t, a: VConst('type_name'))
        ins(r'^std::mem::drop::<', self.m_mem_drop)
        ins(r'^<Vec<.*> as Deref(Mut)?>::deref(_mut)?$', lambda e, st, fr, t, a: a[0] if isinstance(a[0], VRef) else NotImplemented)
        ins(r'^core::slice::<impl \[.*\]>::iter$|^Vec::<.*>::iter$', self.m_slice_iter)
        ins(r' as Iterator>::filter_map::<', self.m_filter_map)
        ins(r'^<std::iter::FilterMap<.*> as IntoIterator>::into_iter$', lambda e, st, fr, t, a: a[0])
        ins(r'^<std::iter::FilterMap<.*> as Iterator>::next$', S.m_veciter_next)
        ins(r'^<std::iter::FilterMap<.*> as Iterator>::try_for_each::<|^<std::slice::Iter<.*> as Iterator>::try_for_each::<', self.m_try_for_each)
        ins(r'^<impl Into<(sender::)?Sender<.*>> as Into<.*>>::into$', self.m_into_sender)
        ins(r'^std::mem::forget::<', lambda e, st, fr, t, a: UNIT)
        ins(r'^TypeId::of::<(.*)>$', lambda e, st, fr, t, a: VConst('TypeId:' + self.subst_type(fr, re.match(r'^TypeId::of::<(.*)>$', t.func, re.S).group(1))))
        ins(r'^<LazyLock<Atomic(U64|<u64>)> as Deref>::deref$', lambda e, st, fr, t, a: VConst('CONTEXT_ID_COUNTER'))
        ins(r'^Atomic(U64)?(::<u64>)?::fetch_add$', self.m_ctx_id)
        ins(r'^<LazyLock<async_lock::RwLock<.*>> as Deref>::deref$', self.m_registry)
        ins(r'^<EnvironmentConfig as Default>::default$', lambda e, st, fr, t, a: VAgg(name='EnvironmentConfig', fields={('f', 0): NONE, ('f', 1): VScalar(False)}, extra={'fieldnames': ('timeout', 'fail_on_timeout')}))
        ins(r'^futures::stream::poll_fn::<', lambda e, st, fr, t, a: VAgg(name='PollFn', fields={('f', 0): a[0]}))
        ins(r'^<futures::stream::PollFn<.*> as StreamExt>::next$', lambda e, st, fr, t, a: VAgg(name='StreamNext', fields={('f', 0): a[0]}))
        ins(r'^<(futures::stream::)?Fuse<.*> as (futures::)?StreamExt>::next$', lambda e, st, fr, t, a: VAgg(name='StreamNext', fields={('f', 0): a[0]}))
        ins(r'^<&mut (futures::stream::)?PollFn<.*> as (futures::)?StreamExt>::fuse$|^<(futures::stream::)?PollFn<.*> as (futures::)?StreamExt>::fuse$',
            lambda e, st, fr, t, a: VAgg(name='StreamFuse', fields={('f', 0): a[0]}, extra={'done': False}))
        ins(r'^<Next<.*> as (futures::)?Future>::poll$', self.m_next_poll)
        ins(r'^<ActorError as From<.*>>::from$', lambda e, st, fr, t, a: VAgg(name='ActorError', fields={('f', 0): a[0]}, extra={'from': _describe(a[0])}))
        ins(r'^<ActorError as Into<.*>>::into$', lambda e, st, fr, t, a: VAgg(name='BoxError', fields={('f', 0): a[0]}))
        ins(r'^futures_timer::Delay::new$', self.m_delay_new)
        ins(r'^futures_timer::Delay::reset$', self.m_delay_reset)
        ins(r'^std::rt::begin_panic::<|^core::panicking::panic|^std::rt::panic_fmt$|^std::panic::resume_unwind$', self.m_panic)
        # runtime: the spawner type parameter is resolved to hannibal's TokioSpawner, tokio itself is modelled
        ins(r'^<[SP] as (spawner::)?Spawner<(Self|A)>>::(spawn_future|sleep|spawn_actor)', self.m_spawner_dispatch)
        ins(r'^<AssertUnwindSafe<.*> as (futures::)?FutureExt>::catch_unwind$', lambda e, st, fr, t, a: VAgg(name='CatchUnwind', fields={('f', 0): a[0]}))
        ins(r'^tokio::spawn::<', self.m_tokio_spawn)
        # the runtime hannibal::runtime::block_on builds (contract of tokio's runtime constructors: Runtime::new and
        # Builder::new_multi_thread have worker threads of their own, new_current_thread runs every task on the thread
        # that sits in block_on)
        ins(r'^(tokio::runtime::)?Runtime::new$', lambda e, st, fr, t, a: S.ok(VAgg(name='TokioRuntime', extra={'flavor': 'multi_thread'})))
        ins(r'^(tokio::runtime::)?Builder::new_current_thread$', lambda e, st, fr, t, a: VAgg(name='TokioRtBuilder', extra={'flavor': 'current_thread'}))
        ins(r'^(tokio::runtime::)?Builder::new_multi_thread$', lambda e, st, fr, t, a: VAgg(name='TokioRtBuilder', extra={'flavor': 'multi_thread'}))
        ins(r'^(tokio::runtime::)?Builder::(enable_all|enable_io|enable_time|thread_name|thread_stack_size|max_blocking_threads|worker_threads)(::<.*>)?$', self.m_rt_builder_opt)
        ins(r'^(tokio::runtime::)?Builder::build$', self.m_rt_builder_build)
        ins(r'^(tokio::runtime::)?Runtime::block_on::<', self.m_rt_block_on)
        ins(r'^async_std::task::spawn::<', self.m_rt_spawn('AsyncJoinHandle'))
        ins(r'^smol::spawn::<', self.m_rt_spawn('SmolTask'))
        ins(r'^Task::<.*>::detach$', self.m_smol_detach)
        ins(r'^async_lock::Mutex::<.*>::lock_blocking$', self.m_lock_blocking)
        ins(r'^Timer::after$|^async_std::task::sleep$', self.m_tokio_sleep)
        ins(r'^<S as StreamExt>::next$|^<T as StreamExt>::next$', self.m_user_stream_next)
        ins(r'^tokio::time::sleep$', self.m_tokio_sleep)
        ins(r'^<[MT] as Clone>::clone$', self.m_msg_clone)
        M.append((R(r'^<[A-Z]\w* as Clone>::clone$'), self.m_generic_clone))
        ins(r'^HashMap::<.*>::values$', self.m_map_values)
        ins(r'^<std::iter::FilterMap<.*> as Iterator>::collect::<Vec<', self.m_collect_vec)
        ins(r'^<&Vec<.*> as IntoIterator>::into_iter$', self.m_slice_iter)
        ins(r'^<&\[.*\] as IntoIterator>::into_iter$', self.m_slice_iter)
        ins(r'^<std::slice::Iter<.*> as Iterator>::next$', S.m_veciter_next)
        ins(r'^Vec::<.*>::len$', lambda e, st, fr, t, a: VScalar(len(deref_arg(e, st, a[0]).extra['items'])))
        ins(r'^HashMap::<.*>::retain::<', self.m_map_retain)
        ins(r'^std::result::Result::<.*>::is_err$', lambda e, st, fr, t, a: VScalar(e.discriminant_of(st, deref_arg(e, st, a[0])).v == 1) if not isinstance(e.discriminant_of(st, deref_arg(e, st, a[0])).v, int) else VScalar(e.discriminant_of(st, deref_arg(e, st, a[0])).v == 1))
        ins(r'^std::result::Result::<.*>::is_ok$', lambda e, st, fr, t, a: VScalar(e.discriminant_of(st, deref_arg(e, st, a[0])).v == 0))
        # hannibal's own functions: inline the MIR body (last resort model)
        M.append((R(r'.'), self.m_inline_hannibal))
        self.user_script = {}
        self.ctx_counter = 0

    # ------------------------------------------------------------------ generic helpers
    @staticmethod
    def subst_type(fr, ty):
        """a type written in terms of the generic parameters of the current function, under the bindings known for
        this frame (`M` -> `()` inside `register_child::<()>`)"""
        tsub = getattr(fr, 'tsub', None)
        if not tsub:
            return ty
        return re.sub(r'\b([A-Za-z_]\w*)\b', lambda mm: tsub.get(mm.group(1), mm.group(1)), ty)

    def resolve_future_impl(self, st, fut):
        """hannibal types that implement Future themselves (Addr<A>)"""
        if isinstance(fut, VAgg) and fut.name and re.fullmatch(r'[A-Za-z_:]+', fut.name) and not fut.name.startswith('model'):
            base = fut.name.split('::')[-1]
            try:
                return self.resolver.resolve(f"<{base}<A> as Future>::poll")
            except Unsupported:
                return None
        return None

    def resolve_fn_item(self, text):
        t = text.strip()
        t = re.sub(r' as ToOwned>::to_owned$', ' as Clone>::clone', t)
        try:
            return self.resolver.resolve(t)
        except Unsupported:
            return None

    def _receiver_value(self, e, st, v):
        """the value behind a chain of references / Box / Pin / Arc (the receiver of a dyn or generic method call)"""
        for _ in range(8):
            if isinstance(v, VRef):
                try:
                    v = _load(e, st, v)
                except Unsupported:
                    return None
            elif isinstance(v, VAgg) and v.name in ('Box', 'Pin') and ('f', 0) in v.fields:
                v = v.fields[('f', 0)]
            elif is_h(v, 'Arc'):
                v = _load(e, st, VRef(('obj', v.extra['oid']), (('f', 0),), False))
            else:
                break
        return v

    def m_inline_hannibal(self, e, st, fr, t, args):
        fn = None
        dm = re.match(r'^<(dyn .*|[A-Z]\w*) as (.*)>::(\w+)(::<.*>)?$', t.func or '', re.S)
        if dm and args:
            # dynamic (`dyn Trait`) or generic (`H: Trait`) dispatch: the concrete type decides - of the receiver value
            # if it is a named struct, else of the generic binding known for this frame
            recv = self._receiver_value(e, st, args[0])
            cands = []
            is_dyn = dm.group(1).startswith('dyn ')
            if is_dyn and isinstance(recv, VAgg) and re.fullmatch(r'[A-Z]\w*', recv.name or '') and recv.name not in ('Box', 'Pin', 'Option', 'Result', 'Vec', 'HashMap', 'Poll'):
                cands.append(recv.name)
            if not is_dyn and fr.tsub and fr.tsub.get(dm.group(1)):
                cands.append(fr.tsub[dm.group(1)])
            elif not is_dyn and isinstance(recv, VAgg) and recv.name:
                # no binding known: the receiver value itself tells the type (a struct, or a modelled handle kind)
                nm = recv.name.split('::')[-1]
                if re.fullmatch(r'[A-Z]\w*', nm) and nm not in ('Box', 'Pin', 'Option', 'Result', 'Vec', 'HashMap', 'Poll'):
                    cands.append(nm)
            for ty in cands:
                tyb = re.sub(r'<.*$', '', ty.strip())
                try:
                    fn = self.resolver.resolve(f"<{tyb}<_> as {dm.group(2)}>::{dm.group(3)}")
                except Unsupported:
                    fn = None
                if fn is not None:
                    info = self.resolver.impl_of(fn)
                    from resolver import base_name
                    if info is not None and base_name(info.selfty) == tyb:
                        break
                    fn = None
            if fn is None and cands and is_dyn and isinstance(recv, VAgg) and recv.name == cands[0]:
                raise Unsupported(f"dynamic dispatch of {dm.group(2)}::{dm.group(3)} on a {recv.name}: no impl found")
        if fn is None:
            fn = self.resolver.resolve(t.func) if t.func else None
        if fn is None and t.func and fr.tsub:
            # a path written in terms of this frame's generic parameters (`<H as HandleFate<A>>::settle`)
            t2 = self.subst_type(fr, t.func)
            if t2 != t.func:
                fn = self.resolver.resolve(t2)
        if fn is None:
            return NotImplemented
        if fn.nargs != len(args):
            raise Unsupported(f"arity mismatch inlining {fn.name} for {t.func[:80]}")
        e.push_call(st, fn, args, ret_dest=t.dest, ret_bb=t.target, unwind_bb=t.unwind,
                    tsub=self.resolver.call_bindings(t.func, fn, fr.tsub) or {})
        return None

    def m_mem_drop(self, e, st, fr, t, args):
        ty = re.match(r'^std::mem::drop::<(.*)>$', t.func, re.S).group(1)
        fr.bb = t.target
        e.write_place(st, fr, t.dest, UNIT)
        depth = len(st.frames)
        self.drop_value(st, args[0], ty, 'mem::drop')
        return None

    def call_closure_sync(self, st, f, argvals):
        """call a closure / fn item to completion from inside a model (must not fork)"""
        e = self.eng
        body, clo = closure_body_of(e, st, f)
        if body is None and isinstance(f, VConst):
            body = self.resolve_fn_item(f.text)
            clo = None
        if body is None:
            raise Unsupported(f"cannot call {f!r}")
        args = list(argvals)
        if clo is not None:
            co = st.alloc(clo)
            args = [VRef(('obj', co), (), True) if body.arg_types[0].startswith('&') else clo] + args
        depth = len(st.frames)
        e.push_call(st, body, args)
        ny = st.meta.get('no_yield')
        st.meta['no_yield'] = True
        leaves = list(e.run(st, stop_depth=depth))
        st.meta['no_yield'] = ny
        if len(leaves) != 1 or leaves[0] is not st:
            raise Unsupported("closure called from a model forked")
        rv = st.result if st.status == 'returned' else st.meta.pop('ret', None)
        st.status = 'running'
        return rv

    def m_slice_iter(self, e, st, fr, t, args):
        ref = args[0]
        v = deref_arg(e, st, ref)
        if not (isinstance(v, VAgg) and v.name == 'Vec'):
            return NotImplemented
        base = _target_of_pin(e, st, ref)
        # a borrowing iterator: items are references to the elements.  Vec keeps its items in extra -> materialise
        # them as fields of a snapshot object so that references have a stable target
        snap = st.alloc(VAgg(name='VecSnapshot', fields={('f', i): x for i, x in enumerate(v.extra['items'])}))
        return VAgg(name='VecIter', extra={'items': tuple(VRef(('obj', snap), (('f', i),), False) for i in range(len(v.extra['items']))), 'idx': 0, 'owning': False})

    def m_map_values(self, e, st, fr, t, args):
        ref, mp = S._map_at(e, st, args[0])
        if mp is None:
            return NotImplemented
        items = tuple(VRef(ref.root, ref.path + (('f', i),), False) for i, k in enumerate(mp.extra['keys']) if k is not None)
        return VAgg(name='VecIter', extra={'items': items, 'idx': 0, 'owning': False})

    def m_collect_vec(self, e, st, fr, t, args):
        it = args[0]
        if not (isinstance(it, VAgg) and it.name == 'VecIter'):
            return NotImplemented
        return VAgg(name='Vec', extra={'items': tuple(it.extra['items'][it.extra['idx']:])})

    def m_map_retain(self, e, st, fr, t, args):
        ref, mp = S._map_at(e, st, args[0])
        if mp is None:
            return NotImplemented
        keys = list(mp.extra['keys'])
        for i, k in enumerate(keys):
            if k is None:
                continue
            r = self.call_closure_sync(st, args[1], [VSym(f"key:{k}"), VRef(ref.root, ref.path + (('f', i),), True)])
            b = e.as_int_expr(r)
            if not isinstance(b, int):
                raise Unsupported("symbolic retain predicate")
            if not b:
                cur = _load(e, st, ref)
                old = cur.fields[('f', i)]
                ks = list(cur.extra['keys'])
                ks[i] = None
                _store(e, st, ref, VAgg(name='HashMap', fields={**cur.fields, ('f', i): TOMB}, extra={'keys': tuple(ks)}))
                e.dropper.drop(st, old, 'HashMap::retain removed the entry')
        return UNIT

    def m_filter_map(self, e, st, fr, t, args):
        it, f = args
        if not (isinstance(it, VAgg) and it.name == 'VecIter'):
            return NotImplemented
        out = []
        for x in it.extra['items'][it.extra['idx']:]:
            r = self.call_closure_sync(st, f, [x])
            d = e.concrete_int(st, e.discriminant_of(st, r))
            if d is None:
                raise Unsupported("filter_map closure returned a symbolic Option")
            if d == 1:
                out.append(r.fields[('v', 'Some', 0)])
        return VAgg(name='VecIter', extra={'items': tuple(out), 'idx': 0, 'owning': False})

    def m_try_for_each(self, e, st, fr, t, args):
        it, f = args
        ref = None
        if isinstance(it, VRef):
            ref = peel(e, st, it)
            it = _load(e, st, ref)
        if not (isinstance(it, VAgg) and it.name == 'VecIter'):
            return NotImplemented
        items = it.extra['items']
        i = it.extra['idx']
        res = ok(UNIT)
        while i < len(items):
            x = items[i]
            i += 1
            r = self.call_closure_sync(st, f, [x])
            d = e.concrete_int(st, e.discriminant_of(st, r))
            if d is None:
                raise Unsupported("try_for_each closure returned a symbolic result")
            if d == 1:
                res = r           # first Err ends the iteration
                break
        if ref is not None:
            ex = dict(it.extra)
            ex['idx'] = i
            _store(e, st, ref, VAgg(name=it.name, fields=it.fields, extra=ex))
        return res

    def m_into_sender(self, e, st, fr, t, args):
        v = args[0]
        if isinstance(v, VAgg) and v.name == 'Addr':
            return e.dispatch(st, fr, t, args, '<sender::Sender<M> as From<Addr<A>>>::from')
        if isinstance(v, VAgg) and v.name in ('Sender', 'sender::Sender'):
            return v
        raise Unsupported(f"Into<Sender> for {v!r}")

    def m_generic_clone(self, e, st, fr, t, args):
        """<S as Clone>::clone through a generic parameter: decided by the value (a modelled handle)"""
        v = deref_arg(e, st, args[0])
        if is_h(v, 'mpsc::Sender') or is_h(v, 'mpsc::UnboundedSender'):
            return S.m_sender_clone(e, st, fr, t, args)
        if is_h(v, 'Arc') or is_h(v, 'Weak') or is_h(v, 'Shared'):
            return self.clone_value(st, v)
        return NotImplemented

    def m_msg_clone(self, e, st, fr, t, args):
        """<M as Clone>::clone of a scripted message: each clone is a distinct delivery (interval ticks)"""
        m = deref_arg(e, st, args[0])
        if isinstance(m, VAgg) and m.name == 'Msg':
            k = st.meta.get(('clones', m.extra['id']), 0) + 1
            st.meta[('clones', m.extra['id'])] = k
            return Msg.new(f"{m.extra['id']}#{k}")
        if isinstance(m, VAgg):
            # not a scripted message: a generic parameter that happens to be called M / T (e.g. a sender type) -
            # cloned by its own Clone semantics (handles count their clones)
            return NotImplemented
        return m

    def run_drop_impl(self, st, val, impl):
        """execute a hannibal `Drop::drop` body for `val` to completion; returns the value after the call"""
        e = self.eng
        oid = st.alloc(val)
        depth = len(st.frames)
        e.push_call(st, impl, [VRef(('obj', oid), (), True)])
        leaves = list(e.run(st, stop_depth=depth))
        if len(leaves) != 1 or leaves[0] is not st:
            raise Unsupported("Drop impl forked")
        if st.status == 'returned':
            st.status = 'running'
        st.meta.pop('ret', None)
        out = st.objs[oid]
        st.objs[oid] = TOMB
        return out

    def m_default_actor(self, e, st, fr, t, args):
        if getattr(self, 'service_kind', None) == 'Broker' and t.func.startswith('<Self'):
            fn = self.resolver.resolve('<Broker<T> as Default>::default')
            e.push_call(st, fn, [], ret_dest=t.dest, ret_bb=t.target, unwind_bb=t.unwind)
            return None
        n = st.meta.get('defaults', 0) + 1
        st.meta['defaults'] = n
        st.event('default_actor', n)
        return VSym(f"actor_default{n}", 'A')

    STRATEGIES = ('RestartOnly', 'RecreateFromDefault', 'NonRestartable')

    def m_refresh(self, e, st, fr, t, args):
        # R as bound by the code that built this Environment (e.g. `Environment::<A, NonRestartable>::create_loop`);
        # if the code is generic all the way up, the binding chosen by the program under exploration
        bound = (fr.tsub or {}).get('R')
        strategy = bound if bound in self.STRATEGIES else getattr(self, 'strategy', 'RestartOnly')
        if bound is not None and bound not in self.STRATEGIES and bound != 'R':
            raise Unsupported(f"restart strategy bound to {bound!r}")
        cands = [f for f in e.functions if f.name.endswith('::refresh') and f.nargs == 2 and
                 f"<{strategy} as RestartStrategy<A>>::refresh" in f.ret_type]
        if len(cands) != 1:
            raise Unsupported(f"refresh for strategy {strategy}: {len(cands)} candidates")
        st.event('refresh_call', strategy)
        e.push_call(st, cands[0], args, ret_dest=t.dest, ret_bb=t.target, unwind_bb=t.unwind)
        return None

    def m_spawner_dispatch(self, e, st, fr, t, args):
        m = re.match(r'^<[SP] as (?:spawner::)?Spawner<(?:Self|A)>>::(\w+)(.*)$', t.func, re.S)
        sp = getattr(self, 'spawner', 'TokioSpawner')
        return e.dispatch(st, fr, t, args, f"<{sp} as Spawner<A>>::{m.group(1)}{m.group(2)}")

    def m_rt_spawn(self, kind):
        """async_std::task::spawn -> JoinHandle (drop detaches, await yields T); smol::spawn -> Task (drop CANCELS,
        detach() detaches, await yields T) - the documented contracts of the two runtimes"""
        def h(e, st, fr, t, args):
            n = st.meta.get('spawned', 0) + 1
            st.meta['spawned'] = n
            join = S.mobj(st, 'join', result=None, finished=False, aborted=False)
            name = st.meta.get('next_task_name') or f"task{n}"
            st.meta['next_task_name'] = None
            if any(tn == name for (tn, *_r) in st.meta.get('tasks', ())):
                name = f"task{n}"          # (a name reserved for a spawn that did not happen must not be reused)
            oid = st.alloc(args[0])
            st.meta['tasks'] = st.meta.get('tasks', ()) + ((name, oid, 'ready', (), 'future'),)
            st.meta[('join_of', name)] = join
            st.event('spawn', name)
            return S.handle(kind, join, task=name)
        return h

    def m_smol_detach(self, e, st, fr, t, args):
        v = args[0]
        if not is_h(v, 'SmolTask'):
            return NotImplemented
        st.event('task_detached', v.extra['task'])
        return UNIT

    def cancel_task(self, st, name, why):
        for (n, oid, status, blocked, kind) in st.meta.get('tasks', ()):
            if n == name and status != 'done':
                st.event('task_cancelled', name, why)
                val = st.objs.get(oid)
                st.objs[oid] = TOMB
                st.meta['tasks'] = tuple((a, b, 'done' if a == name else c, d, k) for (a, b, c, d, k) in st.meta['tasks'])
                j = st.meta.get(('join_of', name))
                if j is not None:
                    mset(st, j, finished=True, result=None)
                st.meta[('frames', name)] = None
                self.eng.dropper.drop(st, val, why)

    def m_lock_blocking(self, e, st, fr, t, args):
        l = S._lock_obj(e, st, args[0])
        if l is None:
            return NotImplemented
        c = mget(st, l.extra['oid'])
        if c['writer'] or c['readers']:
            raise Unsupported("lock_blocking on a held lock (would block the thread)")
        mset(st, l.extra['oid'], writer=True)
        st.event('lock_acquired', l.extra['oid'], 'write')
        return VAgg(name='LockGuard', extra={'oid': l.extra['oid'], 'kind': 'write'})

    def m_user_stream_next(self, e, st, fr, t, args):
        return VAgg(name='leaf', fields={('f', 0): args[0]}, extra={'kind': 'userstream', 'n': 0})

    def m_tokio_spawn(self, e, st, fr, t, args):
        """tokio::spawn(fut): the future becomes a task of the (single-threaded) executor; the JoinHandle observes its
        result; dropping the handle detaches"""
        n = st.meta.get('spawned', 0) + 1
        st.meta['spawned'] = n
        join = S.mobj(st, 'join', result=None, finished=False, aborted=False)
        name = st.meta.get('next_task_name') or f"task{n}"
        st.meta['next_task_name'] = None
        if any(tn == name for (tn, *_r) in st.meta.get('tasks', ())):
            name = f"task{n}"          # (a name reserved for a spawn that did not happen must not be reused)
        oid = st.alloc(args[0])
        tasks = st.meta.get('tasks', ())
        st.meta['tasks'] = tasks + ((name, oid, 'ready', (), 'future'),)
        st.meta[('join_of', name)] = join
        st.event('spawn', name)
        return S.handle('JoinHandle', join, task=name)

    def m_rt_builder_opt(self, e, st, fr, t, args):
        if 'worker_threads' in (t.func or ''):
            # worker_threads(n): n must be a literal >= 1; the flavor decides, the count does not matter for the contract
            st.event('rt_worker_threads', _describe(args[1]) if len(args) > 1 else '')
        return args[0]

    def m_rt_builder_build(self, e, st, fr, t, args):
        b = _load(e, st, peel(e, st, args[0])) if isinstance(args[0], VRef) else args[0]
        if not (isinstance(b, VAgg) and b.name == 'TokioRtBuilder'):
            return NotImplemented
        return S.ok(VAgg(name='TokioRuntime', extra={'flavor': b.extra['flavor']}))

    def m_rt_block_on(self, e, st, fr, t, args):
        rt = _load(e, st, peel(e, st, args[0])) if isinstance(args[0], VRef) else args[0]
        if not (isinstance(rt, VAgg) and rt.name == 'TokioRuntime'):
            return NotImplemented
        st.event('rt_block_on', rt.extra['flavor'])
        return VSym('block_on_output', 'M')

    def m_tokio_sleep(self, e, st, fr, t, args):
        d = args[0]
        ticks = (d.extra or {}).get('ticks') if isinstance(d, VAgg) else None
        if ticks is None:
            raise Unsupported(f"sleep for a non-scripted duration {d!r}")
        clock = self.clock(st)
        now = mget(st, clock)['now']
        n = st.meta.get('sleeps', 0) + 1
        st.meta['sleeps'] = n
        st.event('sleep_start', n, now, now + ticks)
        return VAgg(name='leaf', extra={'kind': 'sleep', 'n': n, 'deadline': now + ticks})

    def m_delay_new(self, e, st, fr, t, args):
        """futures_timer::Delay::new(d): ready once the virtual clock reached now + d (durations are scripted tick counts)"""
        d = args[0]
        ticks = (d.extra or {}).get('ticks') if isinstance(d, VAgg) else None
        if ticks is None:
            return VAgg(name='leaf', extra={'kind': 'delay', 'n': 0})
        leaf = self.m_tokio_sleep(e, st, fr, t, args)
        st.event('delay_new', leaf.extra['n'], mget(st, self.clock(st))['now'], leaf.extra['deadline'])
        return leaf

    def m_delay_reset(self, e, st, fr, t, args):
        ref = S.peel(e, st, args[0])
        cur = _load(e, st, ref)
        d = args[1]
        ticks = (d.extra or {}).get('ticks') if isinstance(d, VAgg) else None
        if not (isinstance(cur, VAgg) and cur.name == 'leaf' and cur.extra.get('kind') == 'sleep') or ticks is None:
            return NotImplemented
        now = mget(st, self.clock(st))['now']
        ex = dict(cur.extra)
        ex['deadline'] = now + ticks
        _store(e, st, ref, VAgg(name='leaf', fields=cur.fields, extra=ex))
        st.event('delay_reset', cur.extra['n'], now, now + ticks)
        return UNIT

    def clock(self, st):
        c = st.meta.get('clock')
        if c is None:
            c = S.mobj(st, 'clock', now=0, waiting=())
            st.meta['clock'] = c
        return c

    def m_next_poll(self, e, st, fr, t, args):
        """<Next<'_, PollFn<Box<dyn FnMut(&mut Context) -> Poll<Option<T>>>>> as Future>::poll: calls the boxed closure"""
        ref = peel(e, st, args[0])
        nx = _load(e, st, ref)
        if not (isinstance(nx, VAgg) and nx.name == 'StreamNext'):
            return NotImplemented
        return models.poll_into(e, st, ref, args[1], t)

    def m_panic(self, e, st, fr, t, args):
        msg = next((a.text for a in args if isinstance(a, VConst)), '')
        st.event('panic', 'explicit', msg[:60] or _callee_short(t.func or ''))
        st.meta['panic_now'] = True      # unwind along the cleanup edges of the calling frames
        return [st]

    def m_ctx_id(self, e, st, fr, t, args):
        n = st.meta.get('ctx_ids', 0)
        st.meta['ctx_ids'] = n + 1
        return VScalar(n)

    def m_registry(self, e, st, fr, t, args):
        """the global REGISTRY: LazyLock<RwLock<HashMap<TypeId, AnyBox>>> - one lock object per state"""
        oid = st.meta.get('registry')
        if oid is None:
            # the protected value is what the static's initialiser makes: LazyLock::new(Default::default) - a HashMap in
            # the original code, any `T: Default` of the crate otherwise (its Default impl is executed)
            m = re.match(r'^<LazyLock<async_lock::RwLock<(.*)>> as Deref>::deref$', t.func or '', re.S)
            inner_ty = m.group(1).strip() if m else 'HashMap'
            if re.match(r'^(std::collections::)?HashMap<', inner_ty) or inner_ty == 'HashMap':
                inner = VAgg(name='HashMap', fields={}, extra={'keys': ()})
            else:
                inner = self.sync_call(st, f"<{inner_ty} as Default>::default", [])
            lock = st.alloc(VAgg(name='model:lock', fields={('f', 0): inner},
                                 extra={'writer': False, 'readers': 0, 'ver': 0}))
            oid = st.alloc(S.handle('AsyncLock', lock))
            st.meta['registry'] = oid
        return VRef(('obj', oid), (), False)

    def m_clone_box(self, e, st, fr, t, args):
        """dyn_clone::clone_box(&*boxed_closure) -> Box<dyn Trait>: clones the closure value (its upvars are cloned
        with their own Clone semantics: Arc/Weak strong/weak counts)"""
        v = deref_arg(e, st, args[0])
        return S.m_box_new(e, st, fr, t, [self.clone_value(st, v)])

    def clone_value(self, st, v):
        if is_h(v, 'Arc'):
            inner = S.arc_inner(st, v)
            S._arc_set(st, v.extra['oid'], strong=inner.extra['strong'] + 1)
            return v
        if is_h(v, 'Weak'):
            inner = S.arc_inner(st, v)
            S._arc_set(st, v.extra['oid'], weak=inner.extra['weak'] + 1)
            return v
        if is_h(v, 'Shared'):
            c = mget(st, v.extra['oid'])
            mset(st, v.extra['oid'], refs=c['refs'] + 1)
            return v
        if is_h(v):
            raise Unsupported(f"clone of model handle {v.name}")
        if isinstance(v, VAgg):
            if v.name == 'Box' and ('f', 0) in v.fields:
                inner = v.fields[('f', 0)]
                oid = st.alloc(self.clone_value(st, st.objs[inner.root[1]]))
                return VAgg(name='Box', fields={('f', 0): VRef(('obj', oid), (), True)})
            return VAgg(v.name, v.vname, v.disc, {k: self.clone_value(st, x) for k, x in v.fields.items()}, v.base, v.extra)
        return v

    def m_call_closure(self, e, st, fr, t, args):
        """<F as Fn*>::call*(f, (args,)) where f is a closure value, a reference to one, or a Box<dyn Fn..>"""
        f = args[0]
        tgt = None
        v = f
        for _ in range(6):
            if isinstance(v, VRef):
                tgt = v
                v = _load(e, st, v)
            elif isinstance(v, VAgg) and v.name in ('Box', 'Pin') and ('f', 0) in v.fields:
                v = v.fields[('f', 0)]
            elif is_h(v, 'Arc'):
                tgt = VRef(('obj', v.extra['oid']), (('f', 0),), False)
                v = _load(e, st, tgt)
            else:
                break
        if isinstance(v, VAgg) and v.name == 'userfn':
            k = st.meta.get(('userfn', v.extra['msg']), 0) + 1
            st.meta[('userfn', v.extra['msg'])] = k
            return Msg.new(f"{v.extra['msg']}#{k}")
        if isinstance(v, VConst):
            fn = self.resolve_fn_item(v.text)
            if fn is None:
                return NotImplemented
            tup = args[1]
            e.push_call(st, fn, [tup.fields[('f', i)] for i in range(len(tup.fields))], ret_dest=t.dest, ret_bb=t.target, unwind_bb=t.unwind)
            return None
        if not (isinstance(v, VAgg) and (v.name or '').startswith('{closure')):
            return NotImplemented
        body = e.resolve_closure(st, v)
        tup = args[1]
        rest = [tup.fields[('f', i)] for i in range(len(tup.fields))] if isinstance(tup, VAgg) and tup.name == 'tuple' else ([] if tup is UNIT else [tup])
        by_ref = body.arg_types[0].startswith('&')
        if by_ref:
            if tgt is None:
                oid = st.alloc(v)
                tgt = VRef(('obj', oid), (), True)
            first = tgt
        else:
            first = v      # FnOnce: closure moved in; upvars are consumed by the body
            if tgt is not None and tgt.root[0] == 'obj':
                pass
        if body.nargs != 1 + len(rest):
            raise Unsupported(f"closure arity {body.name}: {body.nargs} vs {1 + len(rest)}")
        e.push_call(st, body, [first] + rest, ret_dest=t.dest, ret_bb=t.target, unwind_bb=t.unwind)
        return None

    # ------------------------------------------------------------------ continuations
    def c_wrap_some(self, e, st, data, rv):
        dest, target = data
        f = st.frames[-1]
        e.write_place(st, f, dest, some(rv))
        f.bb = target
        return None

    def c_identity(self, e, st, data, rv):
        dest, target = data
        f = st.frames[-1]
        e.write_place(st, f, dest, rv)
        f.bb = target
        return None

    def c_record(self, e, st, data, rv):
        st.event('script_result', data, self.describe_result(st, rv))
        return None

    def describe_result(self, st, rv):
        e = self.eng
        if isinstance(rv, VAgg) and rv.name in ('Result', 'Option', 'Poll') and rv.vname:
            inner = next(iter(rv.fields.values()), None)
            return rv.vname + ('(' + self.describe_result(st, inner) + ')' if inner is not None and inner is not UNIT else '')
        if isinstance(rv, VAgg) and rv.name in ('Canceled', 'SendError'):
            return 'ActorError:' + rv.name
        if isinstance(rv, VAgg) and rv.name == 'ActorError' and rv.vname:
            return 'ActorError:' + rv.vname
        if isinstance(rv, VAgg) and rv.name == 'ActorError':
            return 'ActorError:' + str((rv.extra or {}).get('from', rv.vname or ''))
        if isinstance(rv, VAgg) and rv.name == 'ActorError' or (isinstance(rv, VAgg) and rv.vname in ('AlreadyStopped', 'Timeout', 'ServiceNotFound', 'ServiceStillRunning')):
            return 'ActorError:' + str(rv.vname)
        return _describe(rv)[:60]

    # ------------------------------------------------------------------ drop
    def on_drop(self, e, st, fr, val, ty, t):
        if val is TOMB or (isinstance(val, VAgg) and val.name == '<moved>'):
            return None
        # tombstone the place, then run drop glue
        try:
            e.write_place(st, fr, t.place, TOMB)
        except Unsupported:
            pass
        return self.drop_value(st, val, ty, f"drop({_short_ty(ty)})")

    def drop_value(self, st, val, ty, why):
        """returns None; pushes a frame when the value's type has a hannibal Drop impl"""
        e = self.eng
        bn = base_name(ty) if ty else (val.name if isinstance(val, VAgg) else None)
        impl = e.dropper.drop_impls.get(bn) if bn else None
        if impl is not None and isinstance(val, VSym):
            oid = st.alloc(val)
            st.meta['conts'] = st.meta.get('conts', []) + [('drop_fields', (oid, why))]
            e.push_call(st, impl, [VRef(('obj', oid), (), True)], ret_dest=None, ret_bb=-1, unwind_bb=None, tag='cont')
            return None
        e.dropper.drop(st, val, why)
        return None

    def c_drop_fields(self, e, st, data, rv):
        oid, why = data
        val = st.objs[oid]
        st.objs[oid] = TOMB
        if isinstance(val, VAgg):
            for k, f in sorted(val.fields.items(), key=lambda kv: str(kv[0])):
                e.dropper.drop(st, f, why)
        return None

    # ------------------------------------------------------------------ user code (environment)
    def actor_id(self, st, ctxref):
        try:
            ctx = deref_arg(self.eng, st, ctxref)
            cid = ctx.fields[('f', 0)]
            v = cid.fields[('f', 0)] if isinstance(cid, VAgg) else cid
            return f"ctx{_describe(v)}"
        except Exception:
            return '?'

    def m_user(self, kind):
        def h(e, st, fr, t, args):
            if kind == 'handle' and len(args) > 2:
                actor = deref_arg(e, st, args[0])
                msg = args[2]
                if isinstance(actor, VAgg) and actor.name == 'Broker' and isinstance(msg, VAgg) and msg.name in ('Publish', 'Subscribe', 'Unsubscribe'):
                    fn = self.resolver.resolve(f"<Broker<T> as Handler<{msg.name}<T>>>::handle")
                    st.event('broker_handle', msg.name, _describe(msg.fields.get(('f', 0))))
                    e.push_call(st, fn, args, ret_dest=t.dest, ret_bb=t.target, unwind_bb=t.unwind)
                    return None
            if kind == 'handle' and len(args) > 2 and isinstance(args[2], VAgg) and args[2].name == 'Msg' \
                    and str(args[2].extra.get('id', '')).startswith('ctxpub'):
                # async user code: the handler awaits ctx.publish(topic) - the publish coroutine is the handler future
                who = self.actor_id(st, args[1])
                n0 = sum(1 for ev in st.events if ev[0] == 'user_call' and ev[1] == kind) + 1
                mid = str(args[2].extra['id'])
                st.event('user_call', kind, n0, who, mid)
                ctx = args[1]
                st.meta['next_task_name'] = 'broker'
                fut = self.sync_call(st, 'context::Context::<A>::publish::<M>', [VRef(ctx.root, ctx.path, False), Msg.new('p' + mid[6:])])
                st.event('ctx_publish', who, 'p' + mid[6:])
                return fut
            if kind == 'started' and len(args) > 1:
                who = self.actor_id(st, args[1])
                acts = self.user_script.get(('started_actions', who)) or ()
                if any(a[0] == 'subscribe' for a in acts):
                    # async user code: `ctx.subscribe::<M>().await?` - the subscribe coroutine is the started future
                    n0 = sum(1 for ev in st.events if ev[0] == 'user_call' and ev[1] == kind) + 1
                    st.event('user_call', kind, n0, who, 'subscribe')
                    ctx = args[1]
                    fut = self.sync_call(st, 'context::Context::<A>::subscribe::<M>', [VRef(ctx.root, ctx.path, True)])
                    return fut
            n = sum(1 for ev in st.events if ev[0] == 'user_call' and ev[1] == kind) + 1
            msg = args[2] if len(args) > 2 else None
            actor = self.actor_id(st, args[1]) if len(args) > 1 else '?'
            st.event('user_call', kind, n, actor, _describe(msg) if msg is not None else '')
            if args and isinstance(args[0], VRef) and args[0].mut:
                cur = deref_arg(e, st, args[0])
                if isinstance(cur, VSym):
                    # the callback may change the actor's state: the value is replaced by one that names the callback
                    e._havoc_ref(st, args[0], f"{kind}#{n}")
            leaf = VAgg(name='leaf', fields={('f', 0): msg if msg is not None else UNIT},
                        extra={'kind': kind, 'n': n, 'ctx': args[1] if len(args) > 1 else None, 'actor': actor})
            return leaf
        return h

    # ------------------------------------------------------------------ leaf futures
    def leaf_poll(self, st, ref, fut):
        e = self.eng
        if isinstance(fut, VAgg):
            if fut.name == 'sink::Send':
                return S.poll_sink_send(e, st, ref, fut)
            if fut.name == 'oneshot::Receiver':
                return S.poll_oneshot_rx(e, st, ref, fut)
            if fut.name == 'Shared':
                return S.poll_shared(e, st, ref, fut)
            if fut.name == 'StreamNext':
                return self.poll_stream_next(st, ref, fut)
            if fut.name == 'leaf' and fut.extra.get('kind') == 'sleep':
                clock = self.clock(st)
                c = mget(st, clock)
                if c['now'] >= fut.extra['deadline']:
                    st.event('sleep_done', fut.extra['n'], c['now'])
                    return [(st, ready(UNIT))]
                if fut.extra['deadline'] not in c['waiting']:
                    o = st.objs[clock]
                    ex = dict(o.extra)
                    ex['waiting'] = tuple(sorted(set(c['waiting']) | {fut.extra['deadline']}))
                    st.objs[clock] = VAgg(name=o.name, fields=o.fields, extra=ex)
                    S.touch(st, clock, True)      # registering a deadline enables / changes the clock pseudo-task
                block_on(st, clock)
                return [(st, PENDING)]
            if fut.name == 'LockFuture':
                return S.poll_lock_future(e, st, ref, fut)
            if fut.name in ('JoinHandle', 'AsyncJoinHandle', 'SmolTask'):
                j = mget(st, fut.extra['oid'])
                if j['finished']:
                    res = j['result']
                    mset(st, fut.extra['oid'], result=None)
                    if fut.name != 'JoinHandle':
                        # async-std / smol: awaiting the handle yields the task's output itself
                        if res is None:
                            raise Unsupported("awaiting a cancelled task on async-std or smol")
                        if res.vname == 'Err':
                            # contract of async-task (async-std JoinHandle, smol Task): the panic of the task is
                            # re-raised in whoever awaits its handle (validated natively: hv-entry panics)
                            st.event('panic', 'propagated', f"panic of task {fut.extra.get('task')} re-raised by awaiting its {fut.name}")
                            st.meta['panic_now'] = True
                            return [(st, PENDING)]
                        res = res.fields[('v', 'Ok', 0)]
                    return [(st, ready(res))]
                block_on(st, fut.extra['oid'])
                return [(st, PENDING)]
            if fut.name == 'leaf' and fut.extra.get('kind') == 'userstream' and st.meta.get('ustream') is not None:
                # the attached stream is a scripted queue fed by a client task (ops feed / end_stream)
                us = st.meta['ustream']
                q = mget(st, us)
                if q.get('repeat'):
                    # a stream that is ready on every poll (stream::repeat, a busy socket): item r<k> at the k-th poll
                    k = q['count'] + 1
                    mset(st, us, count=k)
                    st.event('stream_yield', f'r{k}')
                    return [(st, ready(some(Msg.new(f'r{k}'))))]
                if q['items']:
                    it = q['items'][0]
                    mset(st, us, items=tuple(q['items'][1:]))
                    st.event('stream_yield', it)
                    return [(st, ready(some(Msg.new(it))))]
                if q['closed']:
                    if q['ended']:
                        st.event('stream_polled_after_end')
                    mset(st, us, ended=True)
                    st.event('stream_yield', 'end')
                    return [(st, ready(NONE))]
                block_on(st, us)
                return [(st, PENDING)]
            if fut.name == 'leaf' and fut.extra.get('kind') == 'userstream':
                never = st.meta.get('never')
                if never is None:
                    never = S.mobj(st, 'never')
                    st.meta['never'] = never
                block_on(st, never)
                return [(st, PENDING)]
            if fut.name == 'leaf':
                return self.poll_user_leaf(st, ref, fut)
        raise Unsupported(f"poll of unmodelled future {fut!r}")

    def poll_stream_next(self, st, ref, fut):
        """Next<PollFn<Box<dyn FnMut>>>::poll -> call the boxed receive closure (channel.rs)"""
        raise Unsupported("StreamNext is polled through m_next_poll")

    def progress(self, st):
        pr = st.meta.get('progress')
        if pr is None:
            pr = S.mobj(st, 'progress', started=0, stopped=0)
            st.meta['progress'] = pr
        return pr

    def note_progress(self, st, kind):
        pr = st.meta.get('progress')
        if pr is not None:
            mset(st, pr, **{kind: mget(st, pr)[kind] + 1})

    def poll_user_leaf(self, st, ref, fut):
        e = self.eng
        kind = fut.extra['kind']
        n = fut.extra['n']
        if kind == 'blockwait':
            # a client that waits for the actor's progress WITHOUT yielding (std channel recv, Condvar, thread::sleep
            # loop): it occupies its thread until the callback has run
            pr = self.progress(st)
            if mget(st, pr)[n] >= 1:
                st.meta['thread_hog'] = None
                st.event('block_done', n)
                return [(st, ready(UNIT))]
            if not st.meta.get('thread_hog'):
                st.event('thread_blocked', n)
            st.meta['thread_hog'] = True
            block_on(st, pr)
            return [(st, PENDING)]
        if kind == 'handle':
            msg = fut.fields[('f', 0)]
            pend = fut.extra.get('pend', 0)
            outs = []
            if pend < getattr(self, 'handler_pending', 0):
                s2 = st.clone()
                ex = dict(fut.extra)
                ex['pend'] = pend + 1
                _store(e, s2, ref, VAgg(name='leaf', fields=fut.fields, extra=ex))
                s2.event('user_pending', kind, n, fut.extra.get('actor'), _describe(msg))
                s2.meta['self_wake'] = True      # user code suspended on something of its own: it wakes the task itself
                outs.append((s2, PENDING))
            mid = str((msg.extra or {}).get('id', '')) if isinstance(msg, VAgg) else ''
            if mid.startswith('hang'):
                # a handler that needs longer than any timeout: pending until it is abandoned
                if not fut.extra.get('pend'):
                    ex = dict(fut.extra)
                    ex['pend'] = 1
                    _store(e, st, ref, VAgg(name='leaf', fields=fut.fields, extra=ex))
                    st.event('user_pending', kind, n, fut.extra.get('actor'), _describe(msg))
                never = st.meta.get('never')
                if never is None:
                    never = S.mobj(st, 'never')
                    st.meta['never'] = never
                block_on(st, never)
                return outs + [(st, PENDING)]
            if mid.startswith('panic'):
                st.event('user_panic', kind, n, fut.extra.get('actor'), mid)
                st.meta['panic_now'] = True
                outs.append((st, PENDING))
                return outs
            self.run_handler_script(st, fut)
            res = self.handler_result(st, fut)
            st.event('user_done', kind, n, fut.extra.get('actor'), _describe(msg))
            exd = dict(fut.extra)
            exd['done'] = True
            _store(e, st, ref, VAgg(name='leaf', fields=fut.fields, extra=exd))
            outs.append((st, ready(res)))
            return outs
        if kind == 'started':
            pend = fut.extra.get('pend', 0)
            if pend < self.user_script.get(('pending', kind), 0):
                # started() suspends once before it completes
                ex = dict(fut.extra)
                ex['pend'] = pend + 1
                _store(e, st, ref, VAgg(name='leaf', fields=fut.fields, extra=ex))
                st.event('user_pending', kind, n, fut.extra.get('actor'), '')
                st.meta['self_wake'] = True
                return [(st, PENDING)]
            self.run_started_script(st, fut)
            r = self.user_script.get(('started', n), 'ok')
            st.event('user_done', kind, n, fut.extra.get('actor'), r)
            self.note_progress(st, 'started')
            return [(st, ready(ok(UNIT) if r == 'ok' else err(VAgg(name='BoxError', extra={'from': 'started'}))))]
        if kind == 'userfut':
            pend = fut.extra.get('pend', 0)
            if pend < self.user_script.get(('pending', kind), 0):
                # the delayed_exec future suspends once
                ex = dict(fut.extra)
                ex['pend'] = pend + 1
                _store(e, st, ref, VAgg(name='leaf', fields=fut.fields, extra=ex))
                st.event('userfut_pending', n, mget(st, self.clock(st))['now'])
                st.meta['self_wake'] = True
                return [(st, PENDING)]
            st.event('userfut_run', n, mget(st, self.clock(st))['now'])
            return [(st, ready(UNIT))]
        if kind in ('stopped', 'stream', 'finished'):
            pend = fut.extra.get('pend', 0)
            if pend < self.user_script.get(('pending', kind), 0):
                # the callback suspends once (e.g. a stopped() hook that awaits something): other tasks run meanwhile
                ex = dict(fut.extra)
                ex['pend'] = pend + 1
                _store(e, st, ref, VAgg(name='leaf', fields=fut.fields, extra=ex))
                st.event('user_pending', kind, n, fut.extra.get('actor'), '')
                st.meta['self_wake'] = True
                return [(st, PENDING)]
            st.event('user_done', kind, n, fut.extra.get('actor'), _describe(fut.fields.get(('f', 0))) if kind == 'stream' else '')
            if kind == 'stopped':
                self.note_progress(st, 'stopped')
            exd = dict(fut.extra)
            exd['done'] = True
            _store(e, st, ref, VAgg(name='leaf', fields=fut.fields, extra=exd))
            return [(st, ready(UNIT))]
        raise Unsupported(f"leaf {kind}")

    def sync_call(self, st, path, args):
        """run a hannibal function to completion from inside a model (must not fork)"""
        e = self.eng
        fn = self.resolver.resolve(path)
        if fn is None:
            raise Unsupported(f"cannot resolve {path}")
        depth = len(st.frames)
        e.push_call(st, fn, list(args), tsub=self.resolver.call_bindings(path, fn, None) or None)
        ny = st.meta.get('no_yield')
        st.meta['no_yield'] = True
        leaves = list(e.run(st, stop_depth=depth))
        st.meta['no_yield'] = ny
        if len(leaves) != 1 or leaves[0] is not st:
            raise Unsupported(f"nested call to {path} forked")
        rv = st.result if st.status == 'returned' else st.meta.pop('ret', None)
        st.status = 'running'
        return rv

    def run_handler_script(self, st, fut):
        """user handler behaviour selected by the message id: `ctxstop:*` calls ctx.stop(), `ctxrestart:*` ctx.restart()"""
        msg = fut.fields[('f', 0)]
        mid = str((msg.extra or {}).get('id', '')) if isinstance(msg, VAgg) else ''
        ctx = fut.extra.get('ctx')
        if mid.startswith('ctxstop') and ctx is not None:
            r = self.sync_call(st, 'context::Context::<A>::stop', [VRef(ctx.root, ctx.path, False)])
            st.event('script_result', 'ctx.stop', self.describe_result(st, r))
        elif mid.startswith('bcastu') and ctx is not None:
            # broadcast of the unit message: reaches the children registered with add_child (message type `()`)
            tag = 'u' + mid[6:]
            st.event('bcast_from', tag, fut.extra.get('actor') or 'ctx0')
            self.sync_call(st, 'context::Context::<A>::send_to_children::<()>', [VRef(ctx.root, ctx.path, True), Msg.new(tag)])
            st.event('script_result', 'send_to_children', tag)
        elif mid.startswith('bcast') and ctx is not None:
            tag = 'b' + mid[5:]
            st.event('bcast_from', tag, fut.extra.get('actor') or 'ctx0')
            self.sync_call(st, 'context::Context::<A>::send_to_children::<M>', [VRef(ctx.root, ctx.path, True), Msg.new(tag)])
            st.event('script_result', 'send_to_children', tag)
        elif mid.startswith('ctxrestart') and ctx is not None:
            r = self.sync_call(st, 'context::Context::<A>::restart', [VRef(ctx.root, ctx.path, False)])
            st.event('script_result', 'ctx.restart', self.describe_result(st, r))
        elif mid.startswith('ctxboth') and ctx is not None:
            # stop() and then restart() from the same handler: both requests must be accepted
            r = self.sync_call(st, 'context::Context::<A>::stop', [VRef(ctx.root, ctx.path, False)])
            st.event('script_result', 'ctx.stop', self.describe_result(st, r))
            r = self.sync_call(st, 'context::Context::<A>::restart', [VRef(ctx.root, ctx.path, False)])
            st.event('script_result', 'ctx.restart', self.describe_result(st, r))

    def run_started_script(self, st, fut):
        """timer registrations performed by the user's `started` (scenario script): (kind, msg id, ticks)"""
        ctx = fut.extra.get('ctx')
        who = fut.extra.get('actor')
        acts = self.user_script.get(('started_actions', who))
        if acts is None:
            acts = self.user_script.get('started_actions', ()) if who in (None, '?', 'ctx0') else ()
        for act in acts:
            if act[0] in ('add_child', 'register_child', 'both'):
                prog = self.program
                h = act[1]
                if st.meta.get(('h', '_reg_' + h)) is None:
                    continue        # a later incarnation: the children were registered by the first one
                if act[0] == 'both':
                    self.sync_call(st, 'context::Context::<A>::add_child', [VRef(ctx.root, ctx.path, True), prog.take(st, '_reg2_' + h)])
                    st.event('child_registered', 'add_child', h)
                    self.sync_call(st, 'context::Context::<A>::register_child::<M>', [VRef(ctx.root, ctx.path, True), prog.take(st, '_reg_' + h)])
                    st.event('child_registered', 'register_child', h)
                    continue
                child = prog.take(st, '_reg_' + h)
                fn = 'context::Context::<A>::add_child' if act[0] == 'add_child' else 'context::Context::<A>::register_child::<M>'
                self.sync_call(st, fn, [VRef(ctx.root, ctx.path, True), child])
                st.event('child_registered', act[0], h)
                continue
            kind, mid, ticks = act
            dur = VAgg(name='Duration', extra={'ticks': ticks})
            cref = VRef(ctx.root, ctx.path, True)
            if kind == 'interval':
                self.sync_call(st, 'task_handling::<impl context::Context<A>>::interval::<M>', [cref, Msg.new(mid), dur])
            elif kind in ('interval_with', 'delayed_send'):
                self.sync_call(st, f'task_handling::<impl context::Context<A>>::{kind}::<M>', [cref, VAgg(name='userfn', extra={'msg': mid}), dur])
            elif kind == 'delayed_exec':
                self.sync_call(st, 'task_handling::<impl context::Context<A>>::delayed_exec::<F>', [cref, VAgg(name='leaf', extra={'kind': 'userfut', 'n': mid}), dur])
            st.event('timer_registered', kind, mid, ticks, mget(st, self.clock(st))['now'])

    def handler_result(self, st, fut):
        msg = fut.fields[('f', 0)]
        return VAgg(name='Response', fields={}, extra={'of': _describe(msg), 'n': fut.extra['n']})


# =====================================================================================================
# tasks, clients and the scheduler
# =====================================================================================================
import mir as _mir


def _synthetic_poll_fn():
    """fn poll_any(_1: Pin<&mut F>, _2: &mut Context) -> Poll<T> { _0 = <F as Future>::poll(move _1, move _2); return }"""
    t = _mir.Term('call', dest=_mir.Place(0), func='<F as Future>::poll', args=(_mir.Operand('move', _mir.Place(1)), _mir.Operand('move', _mir.Place(2))), target=1, unwind=None, text='synthetic')
    f = _mir.Function(name='verif::poll_any', header='synthetic', nargs=2, arg_types=['Pin<&mut F>', '&mut Context'], ret_type='Poll<T>', local_types={0: 'Poll<T>', 1: 'Pin<&mut F>', 2: '&mut Context'},
                      blocks={0: _mir.Block(0, False, [], t), 1: _mir.Block(1, False, [], _mir.Term('return', text='synthetic'))})
    f.parse_error = None
    return f


POLL_ANY = _synthetic_poll_fn()


def mt_yield_hook(e, st, fr, t):
    """multi-threaded mode: a task may be preempted right before it acquires or releases a lock of async-lock (the
    points where another worker thread can observe / change the protected state)"""
    if t.kind == 'call' and t.func and re.search(r'async_lock::futures::(Write|Read|Lock)<.*> as (futures::)?Future>::poll$', t.func):
        return True
    if t.kind == 'drop':
        ty = _place_ty(fr.fn, t.place) or ''
        if re.search(r'(RwLockWriteGuard|RwLockReadGuard|MutexGuard)<', ty):
            v = e.read_place(st, fr, t.place)
            return isinstance(v, VAgg) and v.name == 'LockGuard'
    return False


class Msg:
    @staticmethod
    def new(ident):
        return VAgg(name='Msg', extra={'id': ident})


class Program:
    """a closed program: one or more actors and client tasks.  Subclasses define `setup(st)` (spawn actors, create
    handles, register tasks) and client scripts (lists of op tuples)."""

    def __init__(self, sysm: 'Sys', max_steps=40):
        self.sys = sysm
        self.eng = sysm.eng
        self.max_steps = max_steps
        self.stats = {'schedules': 0, 'bound': 0}

    # ---- synchronous execution of a hannibal function (must not fork)
    def call(self, st, path, args, allow_fork=False):
        fn = self.sys.resolver.resolve(path)
        if fn is None:
            raise Unsupported(f"cannot resolve {path}")
        return self.call_fn(st, fn, args, allow_fork, tsub=self.sys.resolver.call_bindings(path, fn, None) or None)

    def call_fn(self, st, fn, args, allow_fork=False, tsub=None):
        e = self.eng
        depth = len(st.frames)
        e.push_call(st, fn, list(args), tsub=tsub)
        ny = st.meta.get('no_yield')
        st.meta['no_yield'] = True
        leaves = list(e.run(st, stop_depth=depth))
        for l in leaves:
            l.meta['no_yield'] = ny
        if len(leaves) != 1 and not allow_fork:
            raise Unsupported(f"synchronous call to {fn.name} forked into {len(leaves)} paths")
        out = []
        for l in leaves:
            if l.status == 'returned' or (l.status == 'running' and len(l.frames) == depth):
                rv = l.result if l.status == 'returned' else l.meta.pop('ret', None)
                l.status = 'running'
                out.append((l, rv))
            else:
                out.append((l, None))
        return out if allow_fork else out[0]

    # ---- tasks
    def add_task(self, st, name, fut, kind='future', script=None):
        oid = st.alloc(fut)
        tasks = st.meta.get('tasks', ())
        st.meta['tasks'] = tasks + ((name, oid, 'ready', (), kind),)
        if script is not None:
            st.meta[('script', name)] = (tuple(script), 0)
        return oid

    def tasks(self, st):
        return st.meta.get('tasks', ())

    def set_task(self, st, name, **kw):
        out = []
        for (n, oid, status, blocked, kind) in self.tasks(st):
            if n == name:
                status = kw.get('status', status)
                blocked = kw.get('blocked', blocked)
                oid = kw.get('oid', oid)
            out.append((n, oid, status, blocked, kind))
        st.meta['tasks'] = tuple(out)

    def runnable(self, st):
        if st.meta.get('thread_hog') and getattr(self, 'thread_flavor', 'multi_thread') == 'current_thread':
            # the runtime built by block_on has ONE thread and a task on it waits without yielding (a blocking wait):
            # no other task of that runtime, and no timer of its time driver, can run
            return []
        r = self._runnable_tasks(st)
        c = st.meta.get('clock')
        if c is not None:
            cl = mget(st, c)
            nxt = [d for d in cl['waiting'] if d > cl['now']]
            if nxt:
                if min(nxt) <= getattr(self, 'max_clock', 10 ** 9):
                    r.append('clock')
                else:
                    st.meta['clock_cut'] = True
        if getattr(self, 'faults', 0) and st.meta.get('faults_used', 0) < self.faults:
            for (n, oid, status, blocked, kind) in self.tasks(st):
                if status != 'done' and n in getattr(self, 'fault_targets', ('loop',)) and st.meta.get(('polled', n)):
                    r.append('kill:' + n)
        return r

    def _runnable_tasks(self, st):
        r = []
        for (n, oid, status, blocked, kind) in self.tasks(st):
            if status == 'done':
                continue
            if status == 'blocked':
                if not any(self.version(st, o) != v for o, v in blocked):
                    continue
            r.append(n)
        return r

    @staticmethod
    def version(st, oid):
        o = st.objs.get(oid)
        if isinstance(o, VAgg) and o.extra is not None:
            return (o.extra.get('ver', 0), o.extra.get('strong'), o.extra.get('weak'))
        return None

    def poll_future_obj(self, st, oid, task=None):
        """poll the future stored in st.objs[oid] once; yields (state, Poll value).  In multi-threaded mode the poll
        may stop at a yield point: the state is yielded with value 'YIELD' and the task's frames are parked in
        st.meta[('frames', task)]; the next step of that task resumes them."""
        e = self.eng
        depth = len(st.frames)
        parked = st.meta.get(('frames', task)) if task else None
        if parked:
            st.frames = st.frames + [f.clone() for f in parked]
            st.meta[('frames', task)] = None
        else:
            st.meta['blocked_on'] = frozenset()
            st.meta.pop('self_wake', None)
            e.push_call(st, POLL_ANY, [VAgg(name='Pin', fields={('f', 0): VRef(('obj', oid), (), True)}), VSym('cx')])
        for l in e.run(st, stop_depth=depth):
            if l.status == 'yield':
                l.status = 'running'
                l.meta[('frames', task)] = tuple(l.frames[depth:])
                l.frames = l.frames[:depth]
                l.event('yield_point', task)
                yield l, 'YIELD'
                continue
            if l.status == 'returned' or (l.status == 'running' and len(l.frames) == depth):
                rv = l.result if l.status == 'returned' else l.meta.pop('ret', None)
                l.status = 'running'
                yield l, rv
            else:
                yield l, None

    def step_task(self, st, name):
        """poll task `name` once (client tasks may first start their next operation)."""
        if name == 'clock':
            c = st.meta['clock']
            cl = mget(st, c)
            nxt = min(d for d in cl['waiting'] if d > cl['now'])
            mset(st, c, now=nxt, waiting=tuple(d for d in cl['waiting'] if d > nxt))
            st.event('clock', nxt)
            yield st
            return
        if name.startswith('kill:'):
            victim = name[5:]
            st.meta['faults_used'] = st.meta.get('faults_used', 0) + 1
            for (n, oid, status, blocked, kind) in self.tasks(st):
                if n == victim:
                    st.event('task_killed', victim)
                    val = st.objs.get(oid)
                    st.objs[oid] = TOMB
                    self.set_task(st, victim, status='done')
                    j = st.meta.get(('join_of', victim))
                    if j is not None:
                        mset(st, j, finished=True, result=err(VAgg(name='JoinError')))
                    self.drop_now(st, val, None, f"task {victim} killed")
            yield st
            return
        st.meta[('polled', name)] = True
        for (n, oid, status, blocked, kind) in self.tasks(st):
            if n == name:
                break
        else:
            raise Unsupported(f"no task {name}")
        st.event('sched', name)
        if kind == 'client':
            yield from self.step_client(st, name)
            return
        for l, pv in self.poll_future_obj(st, oid, task=name):
            if pv == 'YIELD':
                self.set_task(l, name, status='ready')
                yield l
                continue
            if l.status == 'panicked':
                # the task died by unwinding: its cleanup blocks have run; the executor drops what is left of it
                l.status = 'running'
                l.unwinding = False
                l.event('task_panicked', name)
                val = l.objs.get(oid)
                l.objs[oid] = TOMB
                self.set_task(l, name, status='done')
                j = l.meta.get(('join_of', name))
                if j is not None:
                    mset(l, j, finished=True, result=err(VAgg(name='JoinError')))
                yield l
                continue
            if l.status != 'running':
                yield l
                continue
            self.after_poll(l, name, oid, pv)
            yield l

    def after_poll(self, st, name, oid, pv):
        e = self.eng
        d = e.discriminant_of(st, pv).v
        if d == 0:
            res = pv.fields.get(('v', 'Ready', 0))
            st.event('task_done', name, self.sys.describe_result(st, res))
            self.set_task(st, name, status='done')
            self.on_task_done(st, name, oid, res)
        else:
            b = tuple((o, self.version(st, o)) for o in sorted(st.meta.get('blocked_on', ())))
            st.meta['yielded'] = name if st.meta.get('self_wake') else None
            if not b or st.meta.pop('self_wake', None):
                # pending without a registered wake source: only the environment can unblock it -> keep it ready
                self.set_task(st, name, status='ready')
            else:
                self.set_task(st, name, status='blocked', blocked=b)

    def on_task_done(self, st, name, oid, res):
        # the finished future is dropped by its executor
        val = st.objs.get(oid)
        st.objs[oid] = TOMB
        if val is not None and val is not TOMB:
            self.drop_now(st, val, None, f"task {name} finished")
        j = st.meta.get(('join_of', name))
        if j is not None:
            mset(st, j, finished=True, result=ok(res))
        elif res is not None:
            self.drop_now(st, res, None, f"result of detached task {name}")

    def drop_now(self, st, val, ty, why):
        """run drop glue to completion (including hannibal Drop impls)"""
        e = self.eng
        depth = len(st.frames)
        self.sys.drop_value(st, val, ty, why)
        if len(st.frames) > depth:
            ny = st.meta.get('no_yield')
            st.meta['no_yield'] = True
            leaves = list(e.run(st, stop_depth=depth))
            st.meta['no_yield'] = ny
            if len(leaves) != 1 or leaves[0] is not st:
                raise Unsupported("drop glue forked")
            if st.status == 'returned':
                st.status = 'running'

    # ---- clients: scripts of operations
    def step_client(self, st, name):
        script, pc = st.meta[('script', name)]
        cur = st.meta.get(('curfut', name))
        if cur is None:
            if pc >= len(script):
                self.set_task(st, name, status='done')
                st.event('client_done', name)
                yield st
                return
            op = script[pc]
            st.event('op_begin', name, pc, op[0], op[1] if len(op) > 1 else '')
            try:
                started = list(self.start_op(st, name, pc, op))
            except Unsupported as ex:
                if type(ex).__name__ != 'MissingHandle':
                    raise
                # the client cannot go on (a real client would have unwrapped a None): it ends here
                st.event('op_end', name, pc, op[0], 'skipped')
                st.event('client_gave_up', name, pc, str(ex))
                st.meta[('script', name)] = (script, len(script))
                self.set_task(st, name, status='done')
                yield st
                return
            for s2, fut in started:
                if fut is None:
                    # synchronous operation finished
                    sc, p2 = s2.meta[('script', name)]
                    s2.meta[('script', name)] = (sc, p2 + 1)
                    yield s2
                else:
                    oid = s2.alloc(fut)
                    s2.meta[('curfut', name)] = oid
                    # first poll happens in the same scheduler step (an async fn call + await)
                    yield from self._poll_client_fut(s2, name, oid)
            return
        yield from self._poll_client_fut(st, name, cur)

    def _poll_client_fut(self, st, name, oid):
        e = self.eng
        for l, pv in self.poll_future_obj(st, oid, task=name):
            if pv == 'YIELD':
                self.set_task(l, name, status='ready')
                yield l
                continue
            if l.status != 'running':
                yield l
                continue
            d = e.discriminant_of(l, pv).v
            script, pc = l.meta[('script', name)]
            if d == 0:
                res = pv.fields.get(('v', 'Ready', 0))
                l.event('op_end', name, pc, script[pc][0], self.sys.describe_result(l, res))
                val = l.objs.get(oid)
                l.objs[oid] = TOMB
                self.drop_now(l, val, None, 'completed operation future')
                self.op_result(l, name, pc, script[pc], res)
                l.meta[('curfut', name)] = None
                l.meta[('script', name)] = (script, pc + 1)
                self.set_task(l, name, status='ready')
            else:
                b = tuple((o, self.version(l, o)) for o in sorted(l.meta.get('blocked_on', ())))
                l.meta['yielded'] = name if l.meta.get('self_wake') else None
                if l.meta.pop('self_wake', None):
                    b = ()
                self.set_task(l, name, status='blocked' if b else 'ready', blocked=b)
            yield l

    def op_result(self, st, name, pc, op, res):
        if res is not None:
            self.drop_now(st, res, None, 'operation result discarded')

    def start_op(self, st, name, pc, op):
        raise NotImplementedError

    # ---- exploration
    def explore(self, st):
        yield from self._explore(st, 0, ())

    @staticmethod
    def _dependent(fa, fb):
        """footprints: frozensets of (object, is_write); dependent iff they share an object one of them writes"""
        if fa is None or fb is None:
            return True
        wa = {o for (o, w) in fa if w}
        wb = {o for (o, w) in fb if w}
        oa = {o for (o, w) in fa}
        ob = {o for (o, w) in fb}
        return bool(wa & ob) or bool(wb & oa)

    def _explore(self, st, depth, sleep):
        """DFS over schedules with sleep sets (partial-order reduction): a transition that was fully explored at an
        ancestor and is independent of everything executed since is not explored again.  `sleep`: tuple of
        (task name, footprint)."""
        if st.status != 'running':
            self.stats['schedules'] += 1
            yield st
            return
        run = self.runnable(st)
        if not run:
            st.status = 'bound' if st.meta.get('clock_cut') else 'quiescent'
            self.stats['schedules'] += 1
            yield st
            return
        if depth >= self.max_steps:
            st.status = 'bound'
            self.stats['bound'] += 1
            self.stats['schedules'] += 1
            yield st
            return
        run = self.reduce(st, run)
        last = st.meta.get('last_task')
        K = getattr(self, 'max_preemptions', None)
        asleep = {n for (n, _fp) in sleep}
        cands = []
        for name in run:
            if self.use_sleep_sets and name in asleep:
                self.stats['sleep_pruned'] = self.stats.get('sleep_pruned', 0) + 1
                continue
            # switching away from a task that can still run costs a preemption - unless its last poll ended in a
            # voluntary yield (a user callback that suspended, a cooperative yield_now)
            cost = 1 if (last is not None and last in run and name != last and st.meta.get('yielded') != last) else 0
            if K is not None and st.meta.get('preemptions', 0) + cost > K:
                self.stats['preemption_cut'] = self.stats.get('preemption_cut', 0) + 1
                continue
            cands.append((name, cost))
        if not cands:
            # everything enabled is asleep: this state's continuations were covered from an equivalent interleaving
            if any(n in asleep for n in run):
                self.stats['sleep_blocked'] = self.stats.get('sleep_blocked', 0) + 1
                return
            st.status = 'bound'
            self.stats['schedules'] += 1
            yield st
            return
        done = []
        for i, (name, cost) in enumerate(cands):
            s2 = st.clone() if i < len(cands) - 1 else st
            s2.meta['last_task'] = name
            s2.meta['preemptions'] = s2.meta.get('preemptions', 0) + cost
            s2.meta['fp'] = frozenset()
            fp_union = frozenset()
            for s3 in self.step_task(s2, name):
                fp = s3.meta.get('fp') or frozenset()
                fp = fp | {(('task', name), True)}
                fp_union = fp_union | fp
                s3.meta['fp'] = None
                if self.use_sleep_sets:
                    nsleep = tuple((n, f) for (n, f) in tuple(sleep) + tuple(done) if n != name and not self._dependent(f, fp))
                else:
                    nsleep = ()
                yield from self._explore(s3, depth + 1, nsleep)
            done.append((name, fp_union))

    use_sleep_sets = True

    def reduce(self, st, run):
        return run
