"""Property id -> check function.  Each returns dict(violations=[{sig,msg,...}], coverage={...}, assumptions=[...])."""
import re
import time

import run_loop

LOOP_ASSUMPTIONS = [
    "rustc nightly MIR dump (--emit=mir, debug-assertions off) of /repo's working tree is what is executed; drop glue "
    "is not in the dump: a MIR `drop(place)` is recorded as an event with the place's type (no fields are dropped individually)",
    "environment model: mailbox yields any sequence of Task/Stop/Restart/closed/empty (bounded count); user futures "
    "(started, stopped, finished, handlers, stream items) are pending at most max_pending times then ready; started may "
    "return Err; timers (futures_timer::Delay) become ready at an arbitrary poll; select! polls its branches in either order",
    "modelled in Python (trusted): Try/FromResidual for Result/Option, Pin::new_unchecked, IntoFuture, FutureExt::map/fuse, "
    "poll_fn, Fuse/Map poll, Poll::map, select!'s shuffle + slice iteration, Option::take/filter, mem::replace; "
    "log macros are disabled (Level <= LevelFilter is false)",
    "panics of user code are modelled as unwinding from the poll of the user future along the MIR cleanup edges",
    "not covered at this level: the channel (FIFO, capacity), handles, registry, real timers, multi-threaded execution",
]


def _loop(ctx):
    def compute():
        cfgs = run_loop.quick_configs() if ctx.tier == 'quick' else run_loop.thorough_configs()
        res, stats = run_loop.run(ctx.functions, ctx.enums, cfgs)
        stats['functions'] = sorted(stats['functions'])
        return res, stats
    (res, stats), was_cached = ctx.cached('loop', compute)
    stats = dict(stats)
    stats['shared_exploration_reused'] = was_cached
    return res, stats


def _sig(pid, x):
    cfg = x['cfg']
    kind = ('stream' if cfg.get('stream') else 'plain') + '/' + cfg['strategy'] + ('/panics' if cfg.get('panics') else '')
    msg = re.sub(r"\(?'?(call_\w+|next|stream_next)'?, ?'?(\w+)'?(, \d+)*\)?", r'\1:\2', x['msg'])
    msg = re.sub(r'\d+', 'N', msg)
    return f"{pid}:{kind}:{msg}"


def loop_property(pid, extra_note=None):
    def check(ctx):
        res, stats = _loop(ctx)
        vio = []
        for x in res.get(pid, []):
            vio.append(dict(sig=_sig(pid, x), msg=x['msg'], cfg=x['cfg'], trace=[list(map(str, e)) for e in x['trace']],
                            choices=x['choices'], has_timeout=x.get('has_timeout'), fail_on_timeout=x.get('fail_on_timeout')))
        cov = dict(
            evaluations=stats['paths'],
            distinct_nontrivial=stats.get('distinct_traces', 0),
            rule="one evaluation = one symbolic path of the loop coroutine(s) (K polls, environment decisions as z3 "
                 "variables, feasibility of every branch decided by z3); distinct_nontrivial = distinct event traces "
                 "in which at least one message/item/restart was dequeued",
            states=stats['steps'],
            transitions=stats['steps'] + stats['solver_calls'],
            traces_validated_against_impl=0,
            samples=stats['samples'],
            solver_queries=stats['solver_calls'],
            solver_s=round(stats['solver_s'], 2),
            paths_cut_by_bound=stats['bound'],
            paths_truncated_by_loop_bound=stats['truncated'],
            configurations=stats['configs'],
            functions_encoded=stats['functions'],
            modelled_calls=stats['modelled'],
            opaque_calls=stats['opaque'],
            shared_exploration_reused=stats['shared_exploration_reused'],
            exploration_wall_s=round(stats.get('wall_s', 0.0), 1),
            exhaustive=False,
            bounds="per configuration: max_msgs dequeued messages, max_polls polls of the loop future, every leaf future "
                   "pending <= max_pending times, <= max_items stream items; MIR loops unrolled <= 8 per activation",
            note=extra_note or '',
        )
        out = dict(violations=vio, coverage=cov, assumptions=LOOP_ASSUMPTIONS)
        if stats.get('unsupported'):
            out['inconclusive'] = f"{len(stats['unsupported'])} configurations could not be executed completely: {stats['unsupported'][0]}"
        if stats['truncated']:
            out['inconclusive'] = f"{stats['truncated']} paths hit the MIR loop unrolling bound"
        return out
    return check


SYS_ASSUMPTIONS = [
    "hannibal's own MIR (channel.rs, environment.rs, addr*.rs, context.rs, ...) is executed for everything inside the "
    "crate (calls are resolved to the MIR bodies through the impl headers read from the source); the crates below it "
    "are Python models: alloc::sync::Arc/Weak (counts), Box, futures mpsc (capacity = buffer + one slot per sender, "
    "FIFO park queue, close on last sender/receiver drop), SinkExt::send (feed then flush), oneshot, Shared "
    "(completes only by being polled; peek sees completed results only; an instance that has yielded its output is "
    "consumed - it and clones made of it panic when polled, peek on it sees nothing), abortable, Vec / VecDeque with "
    "addressable elements, HashMap with concrete keys, Option/Result/iterator combinators (closures executed), "
    "std::sync::atomic cells (a poll is atomic), Receiver::close, dyn-clone; Duration literals in the code count 1 tick per second",
    "drop glue is structural (fields of aggregates, model objects by their contract); hannibal's own Drop impls are executed from MIR",
    "user code is the environment: handlers return a response tagged with their message, may stay pending "
    "handler_pending times (a suspended callback is a voluntary yield: the task stays runnable, switching away from it "
    "is free under the preemption bound); started returns Ok unless the program scripts a failure; a script step whose "
    "handle an earlier step failed to produce ends that client (as an unwrap would)",
    "tasks are polled one at a time (single-threaded executor); every choice of the next runnable task is explored; a "
    "task blocked on a model object becomes runnable when that object changes (what the real wakers do)",
    "bounds: the listed programs (clients x operations), <= max_steps scheduler steps; capacity n symbolic in 0..3 where stated; "
    "the always-ready-stream program is judged by a possibility oracle (some explored schedule answers the call) over <= 8 steps",
]


def _sys(ctx):
    import run_sys
    import mirdump

    def compute():
        return run_sys.run(ctx.functions, ctx.enums, mirdump.REPO, ctx.tier, seed=ctx.seed)
    (res, stats), was_cached = ctx.cached('sys', compute)
    stats = dict(stats)
    stats['shared_exploration_reused'] = was_cached
    return res, stats


def _sys_sig(pid, x):
    msg = re.sub(r'\b[a-d]\d\b|ctxstop:\d', 'M', x['msg'])
    msg = re.sub(r'\d+', 'N', msg)
    return f"{pid}:{x['prog']}:{msg}"


def sys_property(pid, note=None, also_loop=False):
    def check(ctx):
        from engine import Unsupported
        sys_err = None
        try:
            res, stats = _sys(ctx)
        except (Unsupported, RuntimeError, AssertionError, KeyError, IndexError, TypeError, ValueError, AttributeError, RecursionError) as ex:
            if not also_loop:
                raise
            # the other level may still decide (a violation found there is reported; otherwise the check is inconclusive)
            sys_err = f"system level could not be executed: {type(ex).__name__}: {ex}"
            res, stats = {}, dict(paths=0, distinct_traces=0, steps=0, solver_calls=0, solver_s=0.0, samples=[], bound=0, truncated=0,
                                  programs=[], functions=[], modelled={}, opaque={}, wall_s=0.0, shared_exploration_reused=False)
        vio = [dict(sig=_sys_sig(pid, x), msg=x['msg'], program=x['prog'], capacity=x.get('cap'),
                    native_confirmed=x.get('native_confirmed'), native_note=x.get('native_note'),
                    trace=[list(map(str, e)) for e in x['trace']], choices=x['choices']) for x in res.get(pid, [])]
        cov = dict(
            evaluations=stats['paths'], distinct_nontrivial=stats['distinct_traces'],
            rule="one evaluation = one explored schedule (sequence of task polls) of one closed program executed on "
                 "hannibal's MIR; distinct_nontrivial = distinct event traces",
            states=stats['steps'], transitions=stats['steps'] + stats['solver_calls'],
            traces_validated_against_impl=stats.get('traces_validated_against_impl', 0),
            native_mismatches=stats.get('native_mismatches', []), native_confirmations=stats.get('native_confirmations', {}),
            samples=stats['samples'], solver_queries=stats['solver_calls'], solver_s=round(stats['solver_s'], 2),
            schedules_cut_by_bound=stats['bound'], paths_truncated_by_loop_bound=stats['truncated'],
            programs=len(stats['programs']), program_list=stats['programs'], functions_encoded=stats['functions'], modelled_calls=stats['modelled'],
            opaque_calls=stats['opaque'], exploration_wall_s=round(stats['wall_s'], 1),
            shared_exploration_reused=stats['shared_exploration_reused'], exhaustive=False, note=note or '')
        out = dict(violations=vio, coverage=cov, assumptions=list(SYS_ASSUMPTIONS))
        if sys_err:
            out['inconclusive'] = sys_err
        if also_loop:
            try:
                lres, lstats = _loop(ctx)
            except (Unsupported, RuntimeError, AssertionError, KeyError, IndexError, TypeError, ValueError, AttributeError, RecursionError) as ex:
                if sys_err:
                    raise
                lres, lstats = {}, None
                out['inconclusive'] = f"loop level could not be executed: {type(ex).__name__}: {ex}"
            for x in lres.get(pid, []):
                vio.append(dict(sig=_sig(pid, x), msg=x['msg'], cfg=x['cfg'], trace=[list(map(str, e)) for e in x['trace']], choices=x['choices']))
            if lstats is not None:
                cov['loop_level'] = dict(paths=lstats['paths'], solver_queries=lstats['solver_calls'], solver_s=round(lstats['solver_s'], 2),
                                         exploration_wall_s=round(lstats.get('wall_s', 0.0), 1), configurations=lstats['configs'],
                                         functions_encoded=lstats['functions'], modelled_calls=lstats['modelled'])
                cov['evaluations'] += lstats['paths']
                cov['distinct_nontrivial'] += lstats.get('distinct_traces', 0)
                cov['solver_queries'] += lstats['solver_calls']
                cov['solver_s'] = round(cov['solver_s'] + lstats['solver_s'], 2)
                out['assumptions'] += LOOP_ASSUMPTIONS
                if lstats.get('unsupported'):
                    out['inconclusive'] = f"{len(lstats['unsupported'])} loop-level configurations could not be executed completely: {lstats['unsupported'][0]}"
                if lstats['truncated']:
                    out['inconclusive'] = f"{lstats['truncated']} loop-level paths hit the unrolling bound"
        if stats['truncated']:
            out['inconclusive'] = f"{stats['truncated']} schedules hit the MIR loop unrolling bound"
        if stats.get('unsupported'):
            out['inconclusive'] = f"{len(stats['unsupported'])} programs could not be executed completely: {stats['unsupported'][0]}"
            cov['programs_not_executed'] = stats['unsupported']
        if stats.get('native_mismatches'):
            out['inconclusive'] = f"model infidelity: {len(stats['native_mismatches'])} sampled schedules behave differently on the real crates: {stats['native_mismatches'][0]}"
        unconfirmed = [x for x in vio if x.get('native_confirmed') is False]
        if unconfirmed:
            out['inconclusive'] = f"{len(unconfirmed)} symbolic counterexamples did not reproduce natively: {unconfirmed[0]['msg']} ({unconfirmed[0].get('native_note')})"
            out['violations'] = [x for x in vio if x.get('native_confirmed') is not False]
        return out
    return check


ENTRY_ASSUMPTIONS = [
    "one MIR dump per runtime feature (tokio_runtime, async_runtime with --no-default-features, smol_runtime likewise); "
    "hannibal's own code - spawner.rs, the three *_spawner.rs, builder.rs, service.rs, actor_handle.rs, addr.rs - is executed from that MIR",
    "the runtimes are contract models: tokio::spawn / async_std::task::spawn return a handle whose drop detaches; "
    "smol::spawn returns a Task whose drop cancels the task (its future is dropped where it stands) and whose detach() "
    "lets it run; awaiting an async-std JoinHandle / smol Task of a task that panicked re-raises the panic in the awaiter, "
    "tokio's JoinHandle yields Err(JoinError); sleep is a virtual clock.  Each contract is validated on every run against "
    "the real runtime by the native crate /verif/replay-rt (one build per feature)",
    "a program is timing-independent: outcomes are compared as the set, over all explored schedules, of the results of "
    "the client operations plus the sequence of user callbacks; the runtime that deviates from the other two is reported",
    "programs blocking_<entry point>: the program runs under hannibal::runtime::block_on and the spawning task waits for "
    "started() / stopped() without yielding; the kind of runtime is obtained by executing runtime::block_on from the MIR "
    "against a contract model of tokio's constructors (Runtime::new / Builder::new_multi_thread: own worker threads; "
    "Builder::new_current_thread: every task and the time driver run on the blocked thread); async-std and smol re-export "
    "their own block_on (no hannibal code): contract = tasks run on global executor threads; native side: hv-entry blocking",
] + SYS_ASSUMPTIONS


def entry_property(pid):
    def check(ctx):
        import run_entry
        import mirdump

        def compute():
            return run_entry.run(ctx.enums, mirdump.REPO, ctx.tier)
        (res, stats), was_cached = ctx.cached('entry', compute)
        vio = []
        for x in res:
            msg = re.sub(r'\d+', 'N', x['msg'])
            vio.append(dict(sig=f"{pid}:{x['prog']}:{msg}", msg=x['msg'], program=x['prog'], native_confirmed=x.get('native_confirmed'),
                            native_note=x.get('native_note'), trace=[list(map(str, e)) for e in x['trace']][:200]))
        cov = dict(
            evaluations=stats['paths'], distinct_nontrivial=stats['distinct_traces'],
            rule="one evaluation = one explored schedule of one closed program (a spawn entry point followed by call / stop / "
                 "await-or-join, or a program of the timers / owning / registry / children families) executed on the MIR of "
                 "hannibal built with one runtime feature; distinct_nontrivial = distinct (runtime, program, event trace)",
            states=stats['steps'], transitions=stats['steps'] + stats['solver_calls'],
            traces_validated_against_impl=stats.get('traces_validated_against_impl', 0),
            native_mismatches=stats.get('native_mismatches', []), native_confirmations=stats.get('native_confirmations', {}),
            native_runs=stats.get('native_runs', {}),
            samples=stats['samples'], solver_queries=stats['solver_calls'], solver_s=round(stats['solver_s'], 2),
            schedules_cut_by_bound=stats['bound'], paths_truncated_by_loop_bound=stats['truncated'],
            programs=len(stats['programs']), program_list=stats['programs'], functions_encoded=stats['functions'], modelled_calls=stats['modelled'],
            opaque_calls=stats['opaque'], exploration_wall_s=round(stats['wall_s'], 1),
            shared_exploration_reused=was_cached, exhaustive=False,
            block_on_runtime=stats.get('block_on'),
            bounds="runtimes x (14 entry points + 3 blocking-client programs under runtime::block_on + program family), "
                   "<= max_steps scheduler steps, preemption bound per program, bounded(n) entry points with symbolic n in 0..3",
            note="few solver queries: the entry points are straight-line code; what is explored is schedules, the solver decides the capacity comparisons")
        out = dict(violations=vio, coverage=cov, assumptions=list(ENTRY_ASSUMPTIONS))
        if stats['unsupported']:
            out['inconclusive'] = f"{len(stats['unsupported'])} programs could not be executed: {stats['unsupported'][0]}"
        if stats['truncated']:
            out['inconclusive'] = f"{stats['truncated']} schedules hit the MIR loop unrolling bound"
        if stats.get('native_mismatches'):
            out['inconclusive'] = f"model infidelity: {stats['native_mismatches'][0]}"
        unconfirmed = [x for x in vio if x.get('native_confirmed') is False]
        if unconfirmed:
            out['inconclusive'] = f"{len(unconfirmed)} symbolic counterexamples did not reproduce natively: {unconfirmed[0]['msg']} ({unconfirmed[0].get('native_note')})"
            out['violations'] = [x for x in vio if x.get('native_confirmed') is not False]
        return out
    return check


CHECKS = {
    'C18': entry_property('C18'),
    'C01': sys_property('C01', also_loop=True),
    'C02': sys_property('C02', also_loop=True),
    'C05': sys_property('C05'),
    'C06': sys_property('C06', also_loop=True),
    'C08': sys_property('C08'),
    'C09': sys_property('C09'),
    'C10': sys_property('C10'),
    'C16': sys_property('C16'),
    'C17': sys_property('C17'),
    'C12': sys_property('C12'),
    'C14': sys_property('C14'),
    'C15': sys_property('C15'),
    'C03': sys_property('C03', also_loop=True),
    'C04': sys_property('C04', also_loop=True),
    'C07': sys_property('C07', also_loop=True),
    'C11': sys_property('C11', also_loop=True),
    'C13': sys_property('C13', also_loop=True),
}
