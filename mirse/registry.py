"""Property id -> check function.  Each returns dict(violations=[{sig,msg,...}], coverage={...}, assumptions=[...])."""
import re
import time

import run_loop

LOOP_ASSUMPTIONS = [
    "rustc nightly MIR dump (--emit=mir, debug-assertions off) of /repo's working tree is what is executed; drop glue "
    "is not in the dump: a MIR `drop(place)` is recorded as an event with the place's type (no fields are dropped individually)",
    "environment model: mailbox yields any sequence of Task/Stop/Restart/closed/empty (bounded count); user futures "
    "(started, stopped, finished, handlers, stream items) are pending at most max_pending times then ready; started may "
    "return Err; timers (futures_timer::Delay) become ready at an arbitrary poll; select! polls its branches in either order",
    "modelled in Python (trusted): Try/FromResidual for Result/Option, Pin::new_unchecked, IntoFuture, FutureExt::map/fuse, "
    "poll_fn, Fuse/Map poll, Poll::map, select!'s shuffle + slice iteration, Option::take/filter, mem::replace; "
    "log macros are disabled (Level <= LevelFilter is false)",
    "panics of user code are modelled as unwinding from the poll of the user future along the MIR cleanup edges",
    "not covered at this level: the channel (FIFO, capacity), handles, registry, real timers, multi-threaded execution",
]


def _loop(ctx):
    def compute():
        cfgs = run_loop.quick_configs() if ctx.tier == 'quick' else run_loop.thorough_configs()
        res, stats = run_loop.run(ctx.functions, ctx.enums, cfgs)
        stats['functions'] = sorted(stats['functions'])
        return res, stats
    (res, stats), was_cached = ctx.cached('loop', compute)
    stats = dict(stats)
    stats['shared_exploration_reused'] = was_cached
    return res, stats


def _sig(pid, x):
    cfg = x['cfg']
    kind = ('stream' if cfg.get('stream') else 'plain') + '/' + cfg['strategy'] + ('/panics' if cfg.get('panics') else '')
    msg = re.sub(r"\(?'?(call_\w+|next|stream_next)'?, ?'?(\w+)'?(, \d+)*\)?", r'\1:\2', x['msg'])
    msg = re.sub(r'\d+', 'N', msg)
    return f"{pid}:{kind}:{msg}"


def loop_property(pid, extra_note=None):
    def check(ctx):
        res, stats = _loop(ctx)
        vio = []
        for x in res.get(pid, []):
            vio.append(dict(sig=_sig(pid, x), msg=x['msg'], cfg=x['cfg'], trace=[list(map(str, e)) for e in x['trace']],
                            choices=x['choices'], has_timeout=x.get('has_timeout'), fail_on_timeout=x.get('fail_on_timeout')))
        cov = dict(
            evaluations=stats['paths'],
            distinct_nontrivial=stats.get('distinct_traces', 0),
            rule="one evaluation = one symbolic path of the loop coroutine(s) (K polls, environment decisions as z3 "
                 "variables, feasibility of every branch decided by z3); distinct_nontrivial = distinct event traces "
                 "in which at least one message/item/restart was dequeued",
            states=stats['steps'],
            transitions=stats['steps'] + stats['solver_calls'],
            traces_validated_against_impl=0,
            samples=stats['samples'],
            solver_queries=stats['solver_calls'],
            solver_s=round(stats['solver_s'], 2),
            paths_cut_by_bound=stats['bound'],
            paths_truncated_by_loop_bound=stats['truncated'],
            configurations=stats['configs'],
            functions_encoded=stats['functions'],
            modelled_calls=stats['modelled'],
            opaque_calls=stats['opaque'],
            shared_exploration_reused=stats['shared_exploration_reused'],
            exhaustive=False,
            bounds="per configuration: max_msgs dequeued messages, max_polls polls of the loop future, every leaf future "
                   "pending <= max_pending times, <= max_items stream items; MIR loops unrolled <= 8 per activation",
            note=extra_note or '',
        )
        out = dict(violations=vio, coverage=cov, assumptions=LOOP_ASSUMPTIONS)
        if stats['truncated']:
            out['inconclusive'] = f"{stats['truncated']} paths hit the MIR loop unrolling bound"
        return out
    return check


CHECKS = {
    'C03': loop_property('C03'),
    'C04': loop_property('C04', "loop-level part: Stop is a barrier inside the loop, notifier fires after stopped() and only on graceful ends"),
    'C07': loop_property('C07', "loop-level part: strategy dispatch, callback order, failure of started during restart"),
    'C11': loop_property('C11'),
    'C13': loop_property('C13'),
}
