"""Parent/children programs (C16): a parent registers children in `started` (add_child / register_child::<M>), broadcasts
with send_to_children from a handler, and terminates by stop / last drop / cancellation / panic."""
from engine import State, VSym, VAgg, VScalar, VRef, VConst, UNIT, TOMB, Unsupported, _describe
from prog_mailbox import MailboxProgram, _ops, handled_order
from scen_sys import Msg


class ChildrenProgram(MailboxProgram):
    """actors: parent (handle `addr`, task `loop`, context ctx0) and children c1..ck (tasks loopC1.., contexts ctx1..)"""

    def __init__(self, *a, nchildren=2, children_spec=(), **kw):
        super().__init__(*a, **kw)
        self.nchildren = nchildren
        self.children_spec = tuple(children_spec)
        self.sys.program = self

    def make_actor(self, st, label):
        st, ch = self.call(st, 'Channel::<A>::unbounded', [])
        st, env = self.call(st, 'Environment::<A, R>::from_channel', [ch])
        st, la = self.call(st, 'Environment::<A, R>::create_loop', [env, VSym(label, 'A')])
        return st, la.fields[('f', 0)], la.fields[('f', 1)]

    def setup(self):
        st = State()
        st, loop, addr = self.make_actor(st, 'parent')
        self.add_task(st, 'loop', loop)
        self.put(st, 'addr', addr)
        for i in range(1, self.nchildren + 1):
            st, lp, a = self.make_actor(st, f"child{i}")
            self.add_task(st, f"loopC{i}", lp)
            self.put(st, f"c{i}", a)
        # the parent owns what it will register in started(): a clone if the child is also held outside
        for (h, how, kept, *_par) in self.children_spec:
            if kept:
                st, c = self.call(st, '<Addr<A> as Clone>::clone', [self.href(st, h)])
                self.put(st, '_reg_' + h, c)
            else:
                self.put(st, '_reg_' + h, self.take(st, h))
            if how == 'both':       # registered twice by the same parent: add_child(clone) and register_child::<M>(handle)
                st, c = self.call(st, '<Addr<A> as Clone>::clone', [self.href(st, '_reg_' + h)])
                self.put(st, '_reg2_' + h, c)
        for i, op in enumerate(self.pre):
            for s2, fut in self.start_op(st, 'pre', i, op):
                if fut is not None or s2 is not st:
                    raise Unsupported("pre-operations must be synchronous")
        st.events[:] = [e for e in st.events if not (e[0] == 'op_end' and e[1] == 'pre')]
        for name, script in self.scripts.items():
            self.add_task(st, name, UNIT, kind='client', script=script)
        st.events.append(('setup_done',))
        return st


def oracle_children(tr, status, spec):
    """C16.  spec['children'] = [(handle, how, kept_outside)] registered by the parent's started; ctx ids: parent ctx0,
    children ctx1.. in handle order c1, c2..  An entry may name its parent as a 4th element (a child handle): trees."""
    v = []
    reg = [tuple(r) + ((None,) if len(r) == 3 else ()) for r in spec['children']]
    ctx_of = {h: f"ctx{int(h[1:])}" for (h, how, kept, par) in reg}
    ctx_of[None] = 'ctx0'
    child_task = {f"ctx{i}": f"loopC{i}" for i in range(1, 10)}
    child_task['ctx0'] = 'loop'

    def term_of(c):
        return next((i for i, e in enumerate(tr) if e[0] in ('task_done', 'task_killed', 'task_panicked') and e[1] == child_task[c]), None)
    stop_ops = {}
    for o in _ops(tr):
        if o['kind'] in ('stop', 'halt') and o['arg'].startswith('c'):
            stop_ops[f"ctx{o['arg'][1:].rstrip('x')}"] = o['begin']
    for (h, how, kept, par) in reg:
        c = ctx_of[h]
        pc = ctx_of[par]
        registered_at = next((i for i, e in enumerate(tr) if e[0] == 'user_done' and e[1] == 'started' and e[3] == pc), None)
        pterm = term_of(pc)
        cstop = next((i for i, e in enumerate(tr) if e[0] == 'user_call' and e[1] == 'stopped' and e[3] == c), None)
        outside_stop = stop_ops.get(c)
        if cstop is not None and registered_at is not None and (pterm is None or cstop < pterm) and outside_stop is None:
            if cstop > registered_at:
                v.append(f"child {h} ({how}) stopped while its parent was still running")
        if status == 'quiescent' and pterm is not None and not kept and registered_at is not None:
            done = [e for e in tr if e[0] == 'task_done' and e[1] == child_task[c]]
            if not done:
                v.append(f"child {h} ({how}) is still running although its parent terminated and nothing else holds it")
            elif not str(done[0][2]).startswith('Ok'):
                v.append(f"child {h} did not stop gracefully after its parent terminated: {done[0][2]}")
    # broadcasts: every handled 'bcast:k' on the parent delivers b:k exactly once to each child registered under M
    for i, e in enumerate(tr):
        if e[0] == 'script_result' and e[1] == 'send_to_children':
            tag = e[2]
            got = {}
            for x in tr[i:]:
                if x[0] == 'user_call' and x[1] == 'handle' and str(x[4]).startswith(tag + '#'):
                    got[x[3]] = got.get(x[3], 0) + 1
            ended = status == 'quiescent'
            src = next((x[2] for x in reversed(tr[:i]) if x[0] == 'bcast_from' and x[1] == tag), 'ctx0')
            want = 'add_child' if str(tag).startswith('u') else 'register_child'
            targets = [ctx_of[h] for (h, how, kept, par) in reg if how in (want, 'both') and ctx_of[par] == src]
            for c in targets:
                cterm = term_of(c)
                alive_then = cterm is None or cterm > i
                n = got.get(c, 0)
                if n > 1:
                    v.append(f"broadcast {tag} was delivered {n} times to child {c}")
                if ended and alive_then and n == 0:
                    v.append(f"broadcast {tag} never reached child {c} registered under its message type")
            for c in got:
                if c not in targets:
                    v.append(f"broadcast {tag} reached {c} which is not registered under that message type")
    return v
