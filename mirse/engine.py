"""Symbolic executor for rustc MIR (text dump) with z3 deciding path feasibility and property queries.

Scope: the subset of MIR that hannibal's dump contains.  Values are immutable trees; unknown values are
lazily materialised symbols whose discriminants / scalar contents are z3 constants.  Calls are either
  * inlined (the callee's MIR body is in the dump and the harness asked for it),
  * modelled (small Python models of core/alloc/futures functions), or
  * opaque events: recorded in the trace, result is a fresh symbol, `&mut` arguments are havocked.
Anything the engine does not understand raises Unsupported -> the check reports INCONCLUSIVE (exit 2),
never "holds".
"""
import itertools
import re
import time
import z3

from mir import Place, Operand, Function


def duration_literal(callee, lits):
    """Duration::from_secs(n) / from_millis(n) with a literal n -> a Duration in ticks of the virtual clock
    (1 tick = 1 s; sub-second literals round up to one tick, zero stays zero)"""
    m = re.search(r'(?:^|::)Duration::from_(secs|millis|micros|nanos)$', callee)
    if not m or len(lits) != 1:
        return None
    mn = re.fullmatch(r'(\d+)_?(?:[iu](?:8|16|32|64|128|size))?', lits[0].strip())
    if not mn:
        return None
    n = int(mn.group(1))
    div = {'secs': 1, 'millis': 1000, 'micros': 10 ** 6, 'nanos': 10 ** 9}[m.group(1)]
    ticks = 0 if n == 0 else max(1, -(-n // div))
    return VAgg(name='Duration', extra={'ticks': ticks})


class Unsupported(Exception):
    pass


# ----------------------------------------------------------------------------- values
class Value:
    pass


class VSym(Value):
    __slots__ = ('id', 'label', 'ty', '_disc', '_fields', '_scalar', '_deref')
    _ctr = itertools.count(1)
    labels = {}

    def __init__(self, label, ty=None):
        self.id = next(VSym._ctr)
        VSym.labels[self.id] = label
        self.label = label
        self.ty = ty
        self._disc = None
        self._fields = {}
        self._scalar = None
        self._deref = None

    def disc(self):
        if self._disc is None:
            self._disc = z3.Int(f"d{self.id}_{_short(self.label)}")
        return self._disc

    def scalar_bool(self):
        if self._scalar is None:
            self._scalar = z3.Bool(f"b{self.id}_{_short(self.label)}")
        return self._scalar

    def scalar_int(self):
        if self._scalar is None:
            self._scalar = z3.Int(f"i{self.id}_{_short(self.label)}")
        return self._scalar

    def field(self, key, ty=None):
        v = self._fields.get(key)
        if v is None:
            v = VSym(f"{self.label}.{_keystr(key)}", ty)
            self._fields[key] = v
        return v

    def __repr__(self):
        return f"<{self.label}#{self.id}>"


def _short(s):
    return re.sub(r'[^A-Za-z0-9_]', '_', s)[-40:]


def _keystr(k):
    return '.'.join(str(x) for x in k[1:]) if k[0] == 'v' else str(k[1])


class VAgg(Value):
    """immutable aggregate; `base` supplies fields that were never written (for partially known values)."""
    __slots__ = ('name', 'vname', 'disc', 'fields', 'base', 'extra')

    def __init__(self, name=None, vname=None, disc=None, fields=None, base=None, extra=None):
        self.name = name
        self.vname = vname
        self.disc = disc
        self.fields = fields or {}
        self.base = base
        self.extra = extra  # free-form model payload (e.g. closure fn, iterator state)

    def with_field(self, key, val):
        f = dict(self.fields)
        f[key] = val
        return VAgg(self.name, self.vname, self.disc, f, self.base, self.extra)

    def with_disc(self, d, vname=None):
        return VAgg(self.name, vname, d, self.fields, self.base, self.extra)

    def __repr__(self):
        n = self.name or 'agg'
        if self.vname:
            n += '::' + self.vname
        return f"{n}{{{', '.join(_keystr(k) + '=' + repr(v) for k, v in self.fields.items())}}}"


class VScalar(Value):
    __slots__ = ('v',)

    def __init__(self, v):
        self.v = v

    def __repr__(self):
        return f"{self.v}"


class VRef(Value):
    __slots__ = ('root', 'path', 'mut')

    def __init__(self, root, path=(), mut=False):
        self.root = root      # ('local', frame_id, n) | ('obj', oid)
        self.path = tuple(path)
        self.mut = mut

    def __repr__(self):
        return f"&{self.root}{list(self.path)}"


class VConst(Value):
    """uninterpreted constant (string literal, fn item, promoted, ...)"""
    __slots__ = ('text',)

    def __init__(self, text):
        self.text = text

    def __repr__(self):
        return f"const({self.text[:40]})"


UNIT = VAgg(name='()')
TOMB = VAgg(name='<moved>')

# enum variant tables (std); hannibal's own enums are added from source by the harness
ENUMS = {
    'Option': ['None', 'Some'],
    'Result': ['Ok', 'Err'],
    'Poll': ['Ready', 'Pending'],
    'ControlFlow': ['Continue', 'Break'],
    'Ordering': ['Less', 'Equal', 'Greater'],
}


def enum_of_path(path):
    """'std::task::Poll::<..>::Pending' -> ('Poll','Pending')"""
    p = strip_generics(path)
    parts = p.split('::')
    if len(parts) >= 2:
        return parts[-2], parts[-1]
    return None, parts[-1]


def strip_generics(s):
    out = []
    depth = 0
    i = 0
    while i < len(s):
        c = s[i]
        if c == '<':
            depth += 1
        elif c == '>' and (i == 0 or s[i - 1] not in '-='):
            depth -= 1
        elif depth == 0:
            out.append(c)
        i += 1
    r = ''.join(out)
    return re.sub(r'::(::)+', '::', r).strip(':')


# ----------------------------------------------------------------------------- state
class Frame:
    __slots__ = ('fid', 'fn', 'locals', 'bb', 'ret_dest', 'ret_bb', 'unwind_bb', 'tag', 'at_term', 'tsub')

    def __init__(self, fid, fn, tag=None):
        self.fid = fid
        self.fn = fn
        self.locals = {}
        self.bb = 0
        self.ret_dest = None
        self.ret_bb = None
        self.unwind_bb = None
        self.tag = tag
        self.at_term = False     # resumed at the terminator of bb (after a yield point): statements already ran
        self.tsub = None         # bindings of the generic parameters of fn's impl known at the call site (dict) or None

    def clone(self):
        f = Frame(self.fid, self.fn, self.tag)
        f.at_term = self.at_term
        f.tsub = self.tsub
        f.locals = dict(self.locals)
        f.bb = self.bb
        f.ret_dest = self.ret_dest
        f.ret_bb = self.ret_bb
        f.unwind_bb = self.unwind_bb
        return f


class State:
    def __init__(self):
        self.frames = []
        self.objs = {}
        self.events = []
        self.pc = []          # z3 constraints
        self.choices = []     # human-readable decisions (for counterexamples)
        self.visits = {}
        self.next_fid = 1
        self.next_oid = 1
        self.unwinding = False
        self.result = None    # value returned by the outermost frame
        self.status = 'running'   # running | returned | panicked | truncated | unreachable
        self.meta = {}

    def clone(self):
        s = State()
        s.frames = [f.clone() for f in self.frames]
        s.objs = dict(self.objs)
        s.events = list(self.events)
        s.pc = list(self.pc)
        s.choices = list(self.choices)
        s.visits = dict(self.visits)
        s.next_fid = self.next_fid
        s.next_oid = self.next_oid
        s.unwinding = self.unwinding
        s.result = self.result
        s.status = self.status
        s.meta = dict(self.meta)
        return s

    def alloc(self, val):
        oid = self.next_oid
        self.next_oid += 1
        self.objs[oid] = val
        return oid

    def event(self, *ev):
        self.events.append(tuple(ev))


class Stats:
    def __init__(self):
        self.solver_calls = 0
        self.solver_time = 0.0
        self.paths = 0
        self.steps = 0
        self.forks = 0
        self.truncated = 0
        self.functions = set()
        self.opaque = {}
        self.modelled = {}


# ----------------------------------------------------------------------------- engine
class Engine:
    def __init__(self, functions, enums=None, loop_bound=6, max_paths=200000):
        self.functions = functions           # list[Function]
        self.enums = dict(ENUMS)
        if enums:
            self.enums.update(enums)
        self.loop_bound = loop_bound
        self.max_paths = max_paths
        self.stats = Stats()
        self.solver = z3.Solver()
        self.models = []       # [(regex, handler)]
        self.inline = []       # [(regex on call text, resolver(callee_text, args)->Function)]
        self.may_unwind = []   # regexes of opaque callees that may panic (fork to unwind edge)
        self.drop_hooks = []   # [(regex on type, handler(engine, st, val, ty))]
        self.no_havoc = []
        self.falsy = []        # callees returning concrete false
        self.trace_steps = False
        self.tombstone_moves = False
        self.conts = {}         # continuation tag -> handler(engine, st, data, return_value) -> None | [states]
        self.drop_handler = None
        self.yield_hook = None
        self.strict_opaque = False

    # ---- solver
    def feasible(self, st, extra=None):
        cs = st.pc if extra is None else st.pc + [extra]
        # cheap syntactic short-cut: all-constant
        t = time.time()
        self.solver.push()
        for c in cs:
            self.solver.add(c)
        r = self.solver.check()
        self.solver.pop()
        self.stats.solver_calls += 1
        self.stats.solver_time += time.time() - t
        if r == z3.unknown:
            raise Unsupported("solver returned unknown")
        return r == z3.sat

    def model(self, st, extra=None):
        self.solver.push()
        for c in st.pc + ([extra] if extra is not None else []):
            self.solver.add(c)
        r = self.solver.check()
        m = self.solver.model() if r == z3.sat else None
        self.solver.pop()
        self.stats.solver_calls += 1
        return m

    # ---- variant tables
    def variant_index(self, enum, vname):
        m = re.fullmatch(r'_(\d+)', vname)
        if m and enum not in self.enums:
            return int(m.group(1))
        tbl = self.enums.get(enum)
        if tbl is None or vname not in tbl:
            return None
        return tbl.index(vname)

    # ---- memory
    def root_get(self, st, root):
        if root[0] == 'local':
            for f in st.frames:
                if f.fid == root[1]:
                    v = f.locals.get(root[2])
                    if v is None:
                        v = VSym(f"uninit_{root[2]}", f.fn.local_types.get(root[2]))
                        f.locals[root[2]] = v
                    return v
            raise Unsupported(f"dangling reference to dead frame {root}")
        return st.objs[root[1]]

    def root_set(self, st, root, val):
        if root[0] == 'local':
            for f in st.frames:
                if f.fid == root[1]:
                    f.locals[root[2]] = val
                    return
            raise Unsupported(f"write through dangling reference {root}")
        st.objs[root[1]] = val

    def get_path(self, st, val, path):
        for i, key in enumerate(path):
            if key[0] == 'deref':
                val = self.deref_value(st, val)
            else:
                val = self.get_field(val, key)
        return val

    def deref_value(self, st, val):
        if isinstance(val, VRef):
            return self.get_path(st, self.root_get(st, val.root), val.path)
        if isinstance(val, VSym):
            if val._deref is None:
                oid = st.alloc(VSym(f"*{val.label}", _pointee_ty(val.ty)))
                val._deref = ('obj', oid)
            if val._deref[1] not in st.objs:
                st.objs[val._deref[1]] = VSym(f"*{val.label}", _pointee_ty(val.ty))
            return st.objs[val._deref[1]]
        if isinstance(val, VAgg) and val.name in ('Box', 'Pin') and ('f', 0) in val.fields:
            return self.deref_value(st, val.fields[('f', 0)])
        raise Unsupported(f"deref of {val!r}")

    def get_field(self, val, key):
        if key[0] == 'item':
            # element i of a modelled sequence (Vec / VecDeque keep their elements in extra['items'])
            if isinstance(val, VAgg) and val.extra and 'items' in val.extra and key[1] < len(val.extra['items']):
                return val.extra['items'][key[1]]
            raise Unsupported(f"element {key[1]} of {val!r}")
        if isinstance(val, VAgg):
            if key in val.fields:
                return val.fields[key]
            if val.base is not None:
                return val.base.field(key)
            # reading a field that was never written: fresh unknown (e.g. padding / moved-out)
            return VSym(f"{val.name}.{_keystr(key)}?")
        if isinstance(val, VSym):
            return val.field(key)
        if isinstance(val, VRef) and key == ('f', 0):
            # (_1.0: &mut T) on Pin<&mut T> modelled transparently
            return val
        raise Unsupported(f"field {key} of {val!r}")

    def set_path(self, st, val, path, new):
        """functional update of `val` at `path`; returns new root value"""
        if not path:
            return new
        key = path[0]
        if key[0] == 'deref':
            # write through a pointer stored in val
            tgt = self._pointer_target(st, val)
            root_val = self.root_get(st, tgt.root)
            updated = self.set_path(st, root_val, tgt.path + tuple(path[1:]), new)
            self.root_set(st, tgt.root, updated)
            return val
        cur = self.get_field(val, key)
        sub = self.set_path(st, cur, path[1:], new)
        if key[0] == 'item':
            items = list(val.extra['items'])
            items[key[1]] = sub
            return VAgg(val.name, val.vname, val.disc, val.fields, val.base, {**val.extra, 'items': tuple(items)})
        if isinstance(val, VAgg):
            return val.with_field(key, sub)
        if isinstance(val, VSym):
            return VAgg(name=val.ty, disc=None, fields={key: sub}, base=val)
        raise Unsupported(f"set field on {val!r}")

    def _pointer_target(self, st, val):
        if isinstance(val, VRef):
            return val
        if isinstance(val, VSym):
            if val._deref is None:
                oid = st.alloc(VSym(f"*{val.label}", _pointee_ty(val.ty)))
                val._deref = ('obj', oid)
            if val._deref[1] not in st.objs:
                st.objs[val._deref[1]] = VSym(f"*{val.label}", _pointee_ty(val.ty))
            return VRef(val._deref, ())
        if isinstance(val, VAgg) and val.name in ('Box', 'Pin') and ('f', 0) in val.fields:
            return self._pointer_target(st, val.fields[('f', 0)])
        raise Unsupported(f"pointer target of {val!r}")

    @staticmethod
    def proj_keys(place):
        keys = []
        pending_variant = None
        for p in place.proj:
            if p[0] == 'deref':
                keys.append(('deref',))
            elif p[0] == 'downcast':
                pending_variant = p[1]
            elif p[0] == 'field':
                if pending_variant is not None:
                    keys.append(('v', pending_variant, p[1]))
                    pending_variant = None
                else:
                    keys.append(('f', p[1]))
            elif p[0] == 'constindex':
                keys.append(('f', int(str(p[1]).split(' ')[0])))
            elif p[0] == 'index':
                keys.append(('idx', p[1]))
        return keys

    def read_place(self, st, frame, place):
        v = frame.locals.get(place.local)
        if v is None:
            v = VSym(f"{_fn_short(frame.fn)}._{place.local}", frame.fn.local_types.get(place.local))
            frame.locals[place.local] = v
        keys = self.proj_keys(place)
        keys = self._resolve_idx(st, frame, keys)
        return self.get_path(st, v, keys)

    def _resolve_idx(self, st, frame, keys):
        out = []
        for k in keys:
            if k[0] == 'idx':
                iv = frame.locals.get(k[1])
                c = self.concrete_int(st, iv)
                if c is None:
                    raise Unsupported("symbolic array index")
                out.append(('f', c))
            else:
                out.append(k)
        return out

    def write_place(self, st, frame, place, val):
        keys = self._resolve_idx(st, frame, self.proj_keys(place))
        if not keys:
            frame.locals[place.local] = val
            return
        root = frame.locals.get(place.local)
        if root is None:
            root = VSym(f"{_fn_short(frame.fn)}._{place.local}", frame.fn.local_types.get(place.local))
        frame.locals[place.local] = self.set_path(st, root, keys, val)

    def make_ref(self, st, frame, place, mut):
        keys = self._resolve_idx(st, frame, self.proj_keys(place))
        # normalise: follow leading part up to the last deref so the reference points at the real storage
        root = ('local', frame.fid, place.local)
        path = []
        val = None
        for i, k in enumerate(keys):
            if k[0] == 'deref':
                cur = self.get_path(st, self.root_get(st, root), path)
                tgt = self._pointer_target(st, cur)
                # if cur was a lazily materialised symbol we must store nothing back (symbol memoises its target)
                root = tgt.root
                path = list(tgt.path)
            else:
                path.append(k)
        return VRef(root, tuple(path), mut)

    # ---- scalars
    def concrete_int(self, st, v):
        if isinstance(v, VScalar):
            if isinstance(v.v, bool):
                return int(v.v)
            if isinstance(v.v, int):
                return v.v
            if z3.is_int_value(v.v):
                return v.v.as_long()
            if z3.is_true(v.v):
                return 1
            if z3.is_false(v.v):
                return 0
        return None

    def as_int_expr(self, v):
        """integer z3 expression (or python int) of a switchInt operand"""
        if isinstance(v, VScalar):
            if isinstance(v.v, bool):
                return int(v.v)
            if isinstance(v.v, int):
                return v.v
            if z3.is_bool(v.v):
                return z3.If(v.v, 1, 0)
            return v.v
        if isinstance(v, VSym):
            ty = (v.ty or '')
            if ty == 'bool':
                return z3.If(v.scalar_bool(), 1, 0)
            return v.scalar_int()
        raise Unsupported(f"switch on {v!r}")

    def discriminant_of(self, st, v):
        if isinstance(v, VAgg) and v.name == '<moved>':
            raise Unsupported("discriminant of a moved-out value")
        if isinstance(v, VAgg):
            if v.disc is not None:
                return VScalar(v.disc)
            if v.base is not None:
                return VScalar(v.base.disc())
            raise Unsupported(f"discriminant of aggregate without tag {v!r}")
        if isinstance(v, VSym):
            d = v.disc()
            # domain constraint from the type, when known
            en = _enum_name_of_type(v.ty)
            if en in self.enums and ('dom', v.id) not in st.meta:
                st.meta[('dom', v.id)] = True
                st.pc.append(z3.And(d >= 0, d < len(self.enums[en])))
            return VScalar(d)
        raise Unsupported(f"discriminant of {v!r}")

    # ---- operands / rvalues
    def eval_operand(self, st, frame, op):
        if op.kind == 'copy':
            return self.read_place(st, frame, op.place)
        if op.kind == 'move':
            v = self.read_place(st, frame, op.place)
            if self.tombstone_moves and isinstance(v, VAgg) and v.name != '<moved>':
                self.write_place(st, frame, op.place, TOMB)
            return v
        c = op.const
        if c in ('true', 'false'):
            return VScalar(c == 'true')
        if c == '()':
            return UNIT
        m = re.fullmatch(r'(-?\d+)_?([iu](?:8|16|32|64|128|size))?', c)
        if m:
            return VScalar(int(m.group(1)))
        consts = getattr(self.functions, 'consts', None)
        if consts:
            # a path to a literal constant item of the crate (`const YIELD_EVERY: usize = 32;`)
            key = strip_generics(c).split('::')[-1]
            lit = consts.get(key)
            if isinstance(lit, tuple):
                # constant item initialised by one call with literal arguments: durations are the only kind modelled
                v = duration_literal(lit[1], lit[2])
                if v is not None:
                    return v
                lit = None
            if lit is not None and re.fullmatch(r'[\w:<>, ]+', c.strip()):
                if lit in ('true', 'false'):
                    return VScalar(lit == 'true')
                m2 = re.fullmatch(r'(-?\d+)_?([iu](?:8|16|32|64|128|size))?', lit)
                if m2:
                    return VScalar(int(m2.group(1)))
        return VConst(c)

    def eval_rvalue(self, st, frame, rv, dest_ty=None):
        k = rv.kind
        if k == 'use':
            return self.eval_operand(st, frame, rv.ops[0])
        if k == 'ref':
            return self.make_ref(st, frame, rv.place, rv.name == 'mut')
        if k == 'discriminant':
            return self.discriminant_of(st, self.read_place(st, frame, rv.place))
        if k == 'tuple':
            if not rv.ops:
                return UNIT
            return VAgg(name='tuple', fields={('f', i): self.eval_operand(st, frame, o) for i, o in enumerate(rv.ops)})
        if k == 'array':
            return VAgg(name='array', fields={('f', i): self.eval_operand(st, frame, o) for i, o in enumerate(rv.ops)},
                        extra={'len': len(rv.ops)})
        if k == 'cast':
            v = self.eval_operand(st, frame, rv.ops[0])
            return v   # pointer coercions / unsizing keep identity
        if k == 'aggregate':
            return self.eval_aggregate(st, frame, rv, dest_ty)
        if k == 'binop':
            a = self.eval_operand(st, frame, rv.ops[0])
            b = self.eval_operand(st, frame, rv.ops[1])
            return self.binop(rv.name, a, b)
        if k == 'unop':
            a = self.eval_operand(st, frame, rv.ops[0])
            if rv.name == 'Not':
                if isinstance(a, VScalar) and isinstance(a.v, bool):
                    return VScalar(not a.v)
                if isinstance(a, VScalar) and z3.is_bool(a.v):
                    return VScalar(z3.Not(a.v))
                if isinstance(a, VSym):
                    return VScalar(z3.Not(a.scalar_bool()))
            raise Unsupported(f"unop {rv.name} {a!r}")
        if k == 'len':
            v = self.read_place(st, frame, rv.place)
            if isinstance(v, VAgg) and v.extra and 'len' in v.extra:
                return VScalar(v.extra['len'])
            raise Unsupported("Len of unknown")
        raise Unsupported(f"rvalue {k}: {rv.text[:80]}")

    def binop(self, name, a, b):
        def ex(x):
            if isinstance(x, VScalar):
                return x.v
            if isinstance(x, VSym):
                return x.scalar_int()
            raise Unsupported(f"binop operand {x!r}")
        x, y = ex(a), ex(b)
        conc = isinstance(x, (int, bool)) and isinstance(y, (int, bool))
        ops = {'Eq': lambda: x == y, 'Ne': lambda: x != y, 'Lt': lambda: x < y, 'Le': lambda: x <= y,
               'Gt': lambda: x > y, 'Ge': lambda: x >= y, 'Add': lambda: x + y, 'Sub': lambda: x - y,
               'AddUnchecked': lambda: x + y, 'SubUnchecked': lambda: x - y}
        if name in ops:
            r = ops[name]()
            return VScalar(r)
        if name in ('AddWithOverflow', 'SubWithOverflow') and conc:
            r = x + y if name.startswith('Add') else x - y
            return VAgg(name='tuple', fields={('f', 0): VScalar(r), ('f', 1): VScalar(False)})
        raise Unsupported(f"binop {name}")

    def eval_aggregate(self, st, frame, rv, dest_ty):
        name = rv.name
        ops = [self.eval_operand(st, frame, o) for o in rv.ops]
        if name.startswith('{'):
            # closure / coroutine: fields are upvars in order; coroutines start in state 0
            fields = {('f', i): v for i, v in enumerate(ops)}
            is_co = name.startswith(('{coroutine@', '{async'))
            extra = {'upvars': rv.fields}
            if frame.tsub:
                extra['tsub'] = frame.tsub
            if is_co:
                extra['body'] = self.coroutine_body(frame.fn, name)
                fields = self.reconstruct_captures(st, frame, rv, extra['body'], fields)
            return VAgg(name=name, disc=0 if is_co else None, fields=fields, extra=extra)
        if rv.fields is not None:
            # struct literal with named fields: order of declaration is the order printed by rustc
            fields = {('f', i): v for i, v in enumerate(ops)}
            return VAgg(name=strip_generics(name), fields=fields, extra={'fieldnames': rv.fields})
        enum, vname = enum_of_path(name)
        idx = self.variant_index(enum, vname) if enum else None
        if idx is not None:
            fields = {('v', vname, i): v for i, v in enumerate(ops)}
            return VAgg(name=enum, vname=vname, disc=idx, fields=fields)
        # tuple struct / unit struct / unknown enum
        if enum and enum[:1].isupper() and vname[:1].isupper() and enum not in ('Self',) and self._looks_like_enum(enum):
            # variant of an enum we have no table for (e.g. atomic::Ordering): usable until its tag is read
            return VAgg(name=enum, vname=vname, disc=None, fields={('v', vname, i): v for i, v in enumerate(ops)})
        fields = {('f', i): v for i, v in enumerate(ops)}
        return VAgg(name=strip_generics(name), fields=fields)

    def reconstruct_captures(self, st, frame, rv, body, fields):
        """rustc prints closure aggregates as zip(captured *variables*, operands): with disjoint field captures of one
        variable (`self.ctx`, `self.stop`, ...) the operand list is cut short.  The missing captures are rebuilt from
        the body's debug info (`debug self__config__timeout => ((*_1).3: ..)`) by navigating the constructor's
        variable of that name along the named fields of the run-time value."""
        ups = {}
        for name, expr in body.debug.items():
            m = re.match(r'^\(\(\*_\d+\)\.(\d+): ', expr)
            if m:
                ups[int(m.group(1))] = (name, False)
                continue
            m = re.match(r'^\(\*\(\(\*_\d+\)\.(\d+): &', expr)
            if m:
                ups[int(m.group(1))] = (name, True)
        if not ups or max(ups) + 1 <= len(fields):
            return fields
        fields = dict(fields)
        for idx in range(len(rv.ops), max(ups) + 1):
            if idx not in ups:
                raise Unsupported(f"cannot reconstruct capture #{idx} of {rv.name}")
            name, by_ref = ups[idx]
            parts = name.split('__')
            root = frame.fn.debug.get(parts[0])
            m = re.fullmatch(r'_(\d+)', root or '')
            if not m:
                raise Unsupported(f"capture {name}: no local named {parts[0]} in {frame.fn.name}")
            local = int(m.group(1))
            val = frame.locals.get(local)
            keys = []
            for fld in parts[1:]:
                fn_names = (val.extra or {}).get('fieldnames') if isinstance(val, VAgg) else None
                if not fn_names or fld not in fn_names:
                    raise Unsupported(f"capture {name}: field {fld} not found in {val!r}")
                k = ('f', list(fn_names).index(fld))
                keys.append(k)
                val = self.get_field(val, k)
            if by_ref:
                fields[('f', idx)] = VRef(('local', frame.fid, local), tuple(keys), True)
            else:
                fields[('f', idx)] = val
                if self.tombstone_moves and isinstance(val, VAgg):
                    frame.locals[local] = self.set_path(st, frame.locals[local], keys, TOMB) if keys else TOMB
        return fields

    def coroutine_body(self, ctor_fn, name):
        m = re.match(r'^\{coroutine@(.*?)(?: \(#\d+\))?\}$', name)
        span = m.group(1) if m else None
        c = [f for f in self.functions if f.nargs == 2 and span and span in f.arg_types[0]]
        if len(c) == 1:
            return c[0]
        c = [f for f in self.functions if f.name == ctor_fn.name + '::{closure#0}' and f.nargs == 2]
        # several generic impls may share a name (e.g. one per strategy): disambiguate by source line of the ctor
        if len(c) > 1:
            c = sorted(c, key=lambda f: abs(f.line - ctor_fn.line))[:1]
        if len(c) == 1:
            return c[0]
        raise Unsupported(f"coroutine body for {name} constructed in {ctor_fn.name}")

    def _looks_like_enum(self, enum):
        return enum in self.enums

    # ---- function lookup
    def find(self, pred):
        r = [f for f in self.functions if pred(f)]
        return r

    def find_one(self, suffix, argtype_sub=None, nargs=None):
        r = []
        for f in self.functions:
            if f.name.endswith(suffix):
                if nargs is not None and f.nargs != nargs:
                    continue
                if argtype_sub is not None and not any(argtype_sub in t for t in f.arg_types):
                    continue
                r.append(f)
        if len(r) != 1:
            raise Unsupported(f"function lookup {suffix!r}/{argtype_sub!r}: {len(r)} candidates")
        return r[0]

    # ---- execution
    def push_call(self, st, fn, args, ret_dest=None, ret_bb=None, unwind_bb=None, tag=None, tsub=None):
        if getattr(fn, 'parse_error', None):
            raise Unsupported(f"function {fn.name} has unparsed statements: {fn.parse_error}")
        fr = Frame(st.next_fid, fn, tag)
        st.next_fid += 1
        if len(args) != fn.nargs:
            raise Unsupported(f"arity mismatch calling {fn.name}: {len(args)} vs {fn.nargs}")
        for i, a in enumerate(args):
            fr.locals[i + 1] = a
        fr.ret_dest = ret_dest
        fr.ret_bb = ret_bb
        fr.unwind_bb = unwind_bb
        if tsub is None and args:
            # the body of a closure / coroutine runs with the generic bindings of the frame that created it
            tsub = self._tsub_of_value(st, args[0])
        fr.tsub = tsub
        st.frames.append(fr)
        self.stats.functions.add(fn.name)
        return fr

    def _tsub_of_value(self, st, v, depth=0):
        try:
            if isinstance(v, VAgg):
                if v.extra and v.extra.get('tsub'):
                    return v.extra['tsub']
                if v.name == 'Pin' and ('f', 0) in v.fields and depth < 3:
                    return self._tsub_of_value(st, v.fields[('f', 0)], depth + 1)
            if isinstance(v, VRef) and depth < 3:
                return self._tsub_of_value(st, self.get_path(st, self.root_get(st, v.root), v.path), depth + 1)
        except Unsupported:
            pass
        return None

    def run(self, st, stop_depth=0):
        """explore all paths from `st` until the frame stack shrinks to stop_depth; yields leaf states."""
        work = [st]
        while work:
            s = work.pop()
            while True:
                if s.status != 'running' or len(s.frames) <= stop_depth:
                    self.stats.paths += 1
                    if self.stats.paths > self.max_paths:
                        raise Unsupported("path budget exceeded")
                    yield s
                    break
                succ = self.step(s)
                if succ is None:
                    continue
                # fork: succ is a list of states
                if not succ:
                    break
                s = succ[0]
                work.extend(succ[1:])

    def step(self, st):
        """execute one basic block of the top frame. Returns None (continue same state) or list of successor states."""
        fr = st.frames[-1]
        blk = fr.fn.blocks.get(fr.bb)
        if blk is None:
            raise Unsupported(f"missing block bb{fr.bb} in {fr.fn.name}")
        key = (fr.fid, fr.bb)
        st.visits[key] = st.visits.get(key, 0) + 1
        if st.visits[key] > self.loop_bound:
            st.status = 'truncated'
            self.stats.truncated += 1
            return None
        stmts = blk.stmts
        if fr.at_term:
            stmts = ()
        for stmt in stmts:
            self.stats.steps += 1
            if stmt.kind == 'nop':
                continue
            if stmt.kind == 'error':
                raise Unsupported(f"unparsed statement in {fr.fn.name}: {stmt.text}")
            if stmt.kind == 'assign':
                dty = fr.fn.local_types.get(stmt.place.local) if not stmt.place.proj else _proj_ty(stmt.place)
                val = self.eval_rvalue(st, fr, stmt.rv, dty)
                self.write_place(st, fr, stmt.place, val)
            elif stmt.kind == 'setdisc':
                cur = self.read_place(st, fr, stmt.place)
                if isinstance(cur, VAgg):
                    new = cur.with_disc(stmt.disc, cur.vname)
                elif isinstance(cur, VSym):
                    new = VAgg(name=cur.ty, disc=stmt.disc, base=cur)
                else:
                    raise Unsupported(f"setdisc on {cur!r}")
                self.write_place(st, fr, stmt.place, new)
        # yield points (multi-threaded mode): stop *before* an operation on shared state so that another task may run
        if self.yield_hook is not None and not fr.at_term and not st.meta.get('no_yield') and self.yield_hook(self, st, fr, blk.term):
            fr.at_term = True
            st.status = 'yield'
            return None
        fr.at_term = False
        return self.terminator(st, fr, blk.term)

    def terminator(self, st, fr, t):
        self.stats.steps += 1
        k = t.kind
        if k == 'goto':
            fr.bb = t.target
            return None
        if k == 'return':
            return self.do_return(st)
        if k == 'unreachable':
            st.status = 'unreachable'
            return None
        if k in ('resume', 'terminate'):
            return self.do_unwind(st)
        if k == 'switch':
            return self.do_switch(st, fr, t)
        if k == 'assert':
            v = self.eval_operand(st, fr, t.op)
            c = self.concrete_int(st, v)
            if c is not None and bool(c) == t.expected:
                fr.bb = t.target
                return None
            raise Unsupported(f"symbolic/failed assert in {fr.fn.name}")
        if k == 'drop':
            return self.do_drop(st, fr, t)
        if k == 'call':
            return self.do_call(st, fr, t)
        raise Unsupported(f"terminator {k}")

    def do_return(self, st):
        fr = st.frames.pop()
        rv = fr.locals.get(0, UNIT)
        if not st.frames or fr.ret_bb is None:
            st.result = rv
            if not st.frames:
                st.status = 'returned'
            else:
                st.meta['ret'] = rv
            return None
        caller = st.frames[-1]
        if fr.tag == 'cont':
            tag, data = st.meta['conts'][-1]
            st.meta['conts'] = st.meta['conts'][:-1]
            return self.conts[tag](self, st, data, rv)
        if fr.tag == 'filter_pred':
            fid, dest, target, x = st.meta['filter_stack'][-1]
            st.meta['filter_stack'] = st.meta['filter_stack'][:-1]
            b = self.as_int_expr(rv)
            some = VAgg(name='Option', vname='Some', disc=1, fields={('v', 'Some', 0): x})
            none = VAgg(name='Option', vname='None', disc=0)
            if isinstance(b, int):
                self.write_place(st, caller, dest, some if b else none)
                caller.bb = target
                return None
            outs = []
            for val, res in ((1, some), (0, none)):
                cond = b == val
                if self.feasible(st, cond):
                    s2 = st.clone()
                    s2.pc.append(cond)
                    s2.choices.append((f"filter_pred", val))
                    c2 = s2.frames[-1]
                    self.write_place(s2, c2, dest, res)
                    c2.bb = target
                    outs.append(s2)
            return outs
        if fr.ret_dest is not None:
            self.write_place(st, caller, fr.ret_dest, rv)
        caller.bb = fr.ret_bb
        return None

    def do_unwind(self, st):
        """resume: propagate the panic to the caller's unwind edge"""
        fr = st.frames.pop()
        st.unwinding = True
        if fr.tag == 'cont':
            # the continuation registered for this frame's return value is abandoned - unless it catches the unwind
            tag, data = st.meta['conts'][-1]
            st.meta['conts'] = st.meta['conts'][:-1]
            if tag == 'catch_unwind':
                st.unwinding = False
                return self.conts[tag](self, st, data, None)
        if fr.tag == 'filter_pred':
            st.meta['filter_stack'] = st.meta['filter_stack'][:-1]
        if not st.frames or fr.ret_bb is None:
            st.status = 'panicked'
            st.result = None
            return None
        caller = st.frames[-1]
        if fr.unwind_bb is None:
            # caller has no cleanup: keep unwinding
            return self.do_unwind(st)
        caller.bb = fr.unwind_bb
        return None

    def do_switch(self, st, fr, t):
        v = self.eval_operand(st, fr, t.op)
        e = self.as_int_expr(v)
        if isinstance(e, int):
            for val, bb in t.cases:
                if val == e:
                    fr.bb = bb
                    return None
            if t.target is None:
                raise Unsupported("switch without otherwise and no matching case")
            fr.bb = t.target
            return None
        e = z3.simplify(e)
        if z3.is_int_value(e):
            c = e.as_long()
            for val, bb in t.cases:
                if val == c:
                    fr.bb = bb
                    return None
            fr.bb = t.target
            return None
        succ = []
        self.stats.forks += 1
        for val, bb in t.cases:
            cond = e == val
            if self.feasible(st, cond):
                s2 = st.clone()
                s2.pc.append(cond)
                s2.choices.append((str(e), val))
                s2.frames[-1].bb = bb
                succ.append(s2)
        if t.target is not None:
            # is the otherwise target an `unreachable` block? then skip the feasibility query
            ob = fr.fn.blocks.get(t.target)
            is_unreach = ob is not None and not ob.stmts and ob.term.kind == 'unreachable'
            if not is_unreach:
                cond = z3.And([e != val for val, _ in t.cases])
                if self.feasible(st, cond):
                    s2 = st.clone()
                    s2.pc.append(cond)
                    s2.choices.append((str(e), 'otherwise'))
                    s2.frames[-1].bb = t.target
                    succ.append(s2)
        return succ

    # ---- drop
    def do_drop(self, st, fr, t):
        ty = _place_ty(fr.fn, t.place)
        val = self.read_place(st, fr, t.place)
        fr.bb = t.target
        if self.drop_handler is not None:
            return self.drop_handler(self, st, fr, val, ty, t)
        for rx, h in self.drop_hooks:
            if rx.search(ty or ''):
                r = h(self, st, fr, val, ty, t)
                if r is not NotImplemented:
                    return r
        for kind, n in self._pending_leaves(st, val):
            # a user future that was started but has not completed goes away with the value that owns it
            st.event('abandon', kind, n, _short_ty(ty))
        st.event('drop', _short_ty(ty), _describe(val))
        return None

    def _pending_leaves(self, st, val, depth=0, seen=None):
        """(kind, n) of the user futures owned by `val` that were created but have not completed"""
        seen = set() if seen is None else seen
        out = []
        if depth > 6:
            return out
        if isinstance(val, VRef) and val.root[0] == 'obj' and val.mut and not val.path:
            oid = val.root[1]
            if oid in seen:
                return out
            seen.add(oid)
            return self._pending_leaves(st, st.objs.get(oid), depth + 1, seen)
        if isinstance(val, VAgg):
            ex = val.extra if isinstance(val.extra, dict) else None
            if val.name == 'leaf' and ex and ex.get('kind') in ('task', 'item', 'started', 'stopped', 'finished'):
                if not ex.get('done'):
                    out.append((ex['kind'], ex.get('n')))
                return out
            for f in val.fields.values():
                out += self._pending_leaves(st, f, depth + 1, seen)
        return out

    # ---- calls
    def do_call(self, st, fr, t):
        args = [self.eval_operand(st, fr, a) for a in t.args]
        callee = t.func if t.func is not None else f"<indirect {t.func_op}>"
        return self.dispatch(st, fr, t, args, callee)

    def dispatch(self, st, fr, t, args, callee):
        if callee != t.func:
            import copy
            t = copy.copy(t)
            t.func = callee
        norm = _strip_modules(callee)
        for rx, h in self.models:
            if rx.search(callee) or (norm != callee and (rx.search(norm) or _norm_rx(rx).search(norm))):
                self.stats.modelled[rx.pattern] = self.stats.modelled.get(rx.pattern, 0) + 1
                r = h(self, st, fr, t, args)
                if r is NotImplemented:
                    continue
                if isinstance(r, list):
                    for s2 in r:
                        if s2.meta.pop('panic_now', False):
                            # the modelled callee panicked: take the unwind edge of this call
                            s2.event('unwind_from', _callee_short(callee))
                            f2 = s2.frames[-1]
                            s2.unwinding = True
                            if t.unwind is not None:
                                f2.bb = t.unwind
                            else:
                                self.do_unwind(s2)
                    return r      # handler forked / pushed frames itself
                if r is None:
                    return None   # handler arranged control flow itself
                self.write_place(st, fr, t.dest, r)
                if t.target is None:
                    raise Unsupported(f"modelled call to diverging {callee}")
                fr.bb = t.target
                return None
        return self.opaque_call(st, fr, t, args, callee)

    def opaque_call(self, st, fr, t, args, callee, label=None):
        short = _callee_short(callee)
        if self.strict_opaque:
            for a in args:
                tgt = a
                if isinstance(a, VRef) and a.mut:
                    try:
                        tgt = self.get_path(st, self.root_get(st, a.root), a.path)
                    except Unsupported:
                        tgt = None
                elif isinstance(a, VRef):
                    continue
                if tgt is not None and _contains_tracked(tgt):
                    raise Unsupported(f"unmodelled function {short} receives a value with tracked resources "
                                      f"({_describe(tgt)}): its effect on them is unknown")
                if not isinstance(a, VRef) and isinstance(a, VAgg) and any(isinstance(x, (VAgg, VRef)) for x in a.fields.values()):
                    # a structured value handed by value to an unknown function would silently disappear
                    raise Unsupported(f"unmodelled function {short} consumes a structured value ({_describe(a)[:60]}): its effect is unknown")
                if isinstance(a, VRef) and a.mut and isinstance(tgt, VAgg) and tgt.name not in ('tuple',) and (tgt.fields or tgt.extra):
                    # havocking a concrete container / struct behind a &mut would silently change what later code sees
                    raise Unsupported(f"unmodelled function {short} may mutate a concrete value ({_describe(tgt)[:60]}) through &mut: its effect is unknown")
        self.stats.opaque[short] = self.stats.opaque.get(short, 0) + 1
        dty = fr.fn.local_types.get(t.dest.local) if not t.dest.proj else _proj_ty(t.dest)
        n = sum(1 for e in st.events if e[0] == 'call' and e[1] == short) + 1
        res = VSym(f"{label or short}#{n}", dty)
        # havoc what is reachable through &mut arguments
        if not any(rx.search(callee) for rx in self.no_havoc):
            for a in args:
                if isinstance(a, VRef) and a.mut:
                    self._havoc_ref(st, a, f"{short}#{n}")
        st.event('call', short, tuple(_describe(a) for a in args), res.label)
        succ = None
        if t.unwind is not None or True:
            if any(rx.search(callee) for rx in self.may_unwind):
                # fork: the callee panics
                s2 = st.clone()
                s2.event('panic', short)
                s2.choices.append((f"{short}#{n}", 'panics'))
                f2 = s2.frames[-1]
                if t.unwind is not None:
                    f2.bb = t.unwind
                    s2.unwinding = True
                    succ = [s2]
                else:
                    r = self.do_unwind(s2)
                    succ = [s2]
        if t.target is None:
            # diverging call (panic!, abort...)
            st.event('diverge', short)
            st.status = 'panicked'
            return [st] + (succ or []) if succ else None
        self.write_place(st, fr, t.dest, res)
        fr.bb = t.target
        if succ:
            return [st] + succ
        return None

    def fork_values(self, st, t, alts):
        """alts: list of (choice_label, z3 constraint or None, value, [events]); returns successor states with the
        call's destination written and control at t.target.  Infeasible alternatives are dropped by the solver."""
        alts = [a for a in alts if a[1] is None or self.feasible(st, a[1])]
        states = [st.clone() for _ in alts[:-1]] + ([st] if alts else [])
        for s2, (lab, cons, val, evs) in zip(states, alts):
            if cons is not None:
                s2.pc.append(cons)
            s2.choices.append(lab)
            for ev in evs:
                s2.event(*ev)
            f2 = s2.frames[-1]
            self.write_place(s2, f2, t.dest, val)
            f2.bb = t.target
        self.stats.forks += 1
        return states

    def _havoc_ref(self, st, ref, why):
        try:
            root_val = self.root_get(st, ref.root)
        except Unsupported:
            return
        old = self.get_path(st, root_val, ref.path)
        new = VSym(f"havoc({why})", getattr(old, 'ty', None) if isinstance(old, VSym) else (old.name if isinstance(old, VAgg) else None))
        self.root_set(st, ref.root, self.set_path(st, root_val, ref.path, new))


# ----------------------------------------------------------------------------- small helpers
def _fn_short(fn):
    return fn.name.split('::')[-2] + '::' + fn.name.split('::')[-1] if '::' in fn.name else fn.name


def _pointee_ty(ty):
    if not ty:
        return None
    m = re.match(r"^&(?:'\w+ )?(?:mut )?(.*)$", ty)
    if m:
        return m.group(1)
    m = re.match(r'^(?:std::pin::)?Pin<&(?:mut )?(.*)>$', ty)
    if m:
        return m.group(1)
    return None


def _proj_ty(place):
    for p in reversed(place.proj):
        if p[0] == 'field':
            return p[2]
        break
    return None


def _place_ty(fn, place):
    if not place.proj:
        return fn.local_types.get(place.local)
    last = place.proj[-1]
    if last[0] == 'field':
        return last[2]
    if last[0] == 'deref':
        return _pointee_ty(_place_ty(fn, Place(place.local, place.proj[:-1])))
    return None


def _enum_name_of_type(ty):
    if not ty:
        return None
    s = strip_generics(ty)
    return s.split('::')[-1]


def _short_ty(ty):
    if not ty:
        return '?'
    s = strip_generics(ty)
    s = re.sub(r'\{async fn body of ([^}]*)\}', r'async:\1', s)
    return s[-120:]


def _callee_short(callee):
    s = callee
    # <T as Trait>::method  ->  Trait::method ; keep the self type for a few interesting ones
    s = re.sub(r"'\w+ ?", '', s)
    m = re.match(r'^<(.*) as ([^<>]*(?:<.*>)?)>::(\w+)(?:::<.*>)?$', s, re.S)
    if m:
        selfty = _short_ty(m.group(1))
        trait = strip_generics(m.group(2)).split('::')[-1]
        return f"<{selfty[:70]}>::{trait}::{m.group(3)}"
    s = strip_generics(s)
    return s[-100:]


_MODSEG = re.compile(r'(?<![A-Za-z0-9_])(?:[a-z_][a-z0-9_]*::)+(?=[A-Z{]|dyn )')


_PATSEG = re.compile(r'(?<![A-Za-z0-9_])(?:[a-z_][a-z0-9_]*::)+(?=[A-Z{]|dyn |\((?:\?:)?[A-Z])')
_NORM_RX = {}


def _norm_rx(rx):
    """the same pattern with the module prefixes of type and trait names removed, for matching module-stripped callee text"""
    r = _NORM_RX.get(rx.pattern)
    if r is None:
        r = _NORM_RX[rx.pattern] = re.compile(_PATSEG.sub('', rx.pattern), rx.flags)
    return r


def _strip_modules(s):
    """`futures::futures_channel::mpsc::UnboundedSender<..>` -> `UnboundedSender<..>` (rustc prints the same item with
    different module prefixes depending on what is in scope)"""
    return _MODSEG.sub('', s)


def _contains_tracked(v, depth=0):
    """does the value own model-tracked resources (handles to model objects, boxes, closures)?"""
    if depth > 6 or not isinstance(v, VAgg):
        return False
    if v.extra and isinstance(v.extra, dict) and 'oid' in v.extra:
        return True
    if v.name in ('Box',) or (v.name or '').startswith('{closure') or (v.name or '').startswith('{coroutine'):
        return True
    return any(_contains_tracked(x, depth + 1) for x in v.fields.values())


def _describe(v):
    if isinstance(v, VSym):
        return v.label
    if isinstance(v, VRef):
        return f"&{v.root[0]}{v.root[-1]}{''.join('.' + _keystr(k) if k[0] != 'deref' else '*' for k in v.path)}"
    if isinstance(v, VAgg):
        if v.extra and isinstance(v.extra, dict):
            if 'id' in v.extra and v.name == 'Msg':
                return str(v.extra['id'])
            if 'of' in v.extra:
                return f"{v.name}[{v.extra['of']}]"
        return (v.name or 'agg') + (('::' + v.vname) if v.vname else '')
    if isinstance(v, VScalar):
        return str(v.v)
    if isinstance(v, VConst):
        return v.text[:40]
    return repr(v)
