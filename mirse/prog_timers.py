"""Timer programs: the actor's `started` registers timers (scenario script); clients stop / drop / restart it.
Virtual clock: `sleep(d)` completes when the clock has reached its deadline; the scheduler may advance the clock to the
next deadline at any step (timers never fire early, arbitrarily late)."""
from prog_mailbox import MailboxProgram, _ops, handled_order, oracle_handles


def _owner_and_time(tr):
    """for each event index: (task scheduled, virtual time)"""
    out = []
    owner, now = None, 0
    for e in tr:
        if e[0] == 'sched':
            owner = e[1]
        elif e[0] == 'clock':
            now = e[1]
            owner = 'clock'
        out.append((owner, now))
    return out


def oracle_timers(tr, status, actions):
    """C10 over one trace.  actions: [(kind, msg id, ticks)] registered by started (in this order => task1, task2, ...)"""
    v = []
    ot = _owner_and_time(tr)
    term = next((i for i, e in enumerate(tr) if e[0] in ('task_done', 'task_killed', 'task_panicked') and e[1] == 'loop'), None)
    spawned = [e[1] for e in tr if e[0] == 'spawn']
    reg_time = {}
    reg_index = {}
    k = 0
    for i, e in enumerate(tr):
        if e[0] == 'timer_registered':
            if k < len(spawned):
                reg_time[spawned[k]] = (e[1], e[2], e[3], e[4])
                reg_index[spawned[k]] = i
            k += 1
    t_end = ot[-1][1] if ot else 0
    for task, (kind, mid, ticks, t0) in reg_time.items():
        pushes = [(i, ot[i][1], e[3]) for i, e in enumerate(tr) if e[0] == 'chan_push' and ot[i][0] == task]
        ok = [(i, t) for (i, t, r) in pushes if r == 'ok']
        runs = [(i, ot[i][1]) for i, e in enumerate(tr) if e[0] == 'userfut_run' and ot[i][0] == task]
        if kind in ('interval', 'interval_with'):
            for j, (i, t) in enumerate(ok):
                if t < t0 + (j + 1) * ticks:
                    v.append(f"{kind}({ticks}) delivered its tick #{j+1} at time {t}, before {t0 + (j + 1) * ticks}")
            for (i1, t1), (i2, t2) in zip(ok, ok[1:]):
                if t2 - t1 < ticks:
                    v.append(f"{kind}({ticks}) delivered two ticks only {t2 - t1} apart")
        elif kind == 'delayed_send':
            if len(ok) > 1:
                v.append(f"delayed_send fired {len(ok)} times")
            for (i, t) in ok:
                if t < t0 + ticks:
                    v.append(f"delayed_send({ticks}) fired at {t}, before its delay elapsed")
        elif kind == 'delayed_exec':
            if len(runs) > 1:
                v.append(f"delayed_exec ran {len(runs)} times")
            for (i, t) in runs:
                if t < t0 + ticks:
                    v.append(f"delayed_exec({ticks}) ran at {t}, before its delay elapsed")
                if term is not None and i > term:
                    v.append("delayed_exec ran after the actor had terminated")
        if kind in ('interval', 'interval_with'):
            # liveness: the timer of a live incarnation keeps running - its task ends only with the actor or a restart
            r = reg_index[task]
            restarted = next((i for i, e in enumerate(tr) if i > r and e[0] == 'refresh_call'), None)
            stop_like = next((i for i, e in enumerate(tr) if i > r and ((e[0] == 'chan_pop' and str(e[2]) in ('Stop',)) or e[0] == 'chan_receiver_dropped'
                                                                         or (e[0] == 'user_call' and e[1] == 'stopped'))), None)
            if status == 'quiescent' and term is None and restarted is None and stop_like is None and t_end >= t0 + ticks and not ok and not any(r2 != 'ok' for (_, _, r2) in pushes):
                v.append(f"{kind}({ticks}) registered at {t0} delivered nothing by time {t_end} on a live actor")
        if term is not None:
            late = [i for (i, t) in ok if i > term]
            if late:
                v.append(f"{kind} delivered into the actor after it terminated")
        if term is not None:
            # every timer is aborted when the actor terminates: an aborted task ends at its next poll without looking at
            # its sleep again, so a sleep of this task that completes after the termination means it was never aborted
            woke = [ot[i][1] for i, e in enumerate(tr) if i > term and e[0] == 'sleep_done' and ot[i][0] == task]
            if woke:
                v.append(f"{kind} timer task was not aborted when the actor terminated: it slept on until time {woke[0]}")
        if status == 'quiescent' and term is not None:
            done = any(e[0] == 'task_done' and e[1] == task for e in tr)
            if not done:
                v.append(f"{kind} timer task still alive although the actor terminated and the system is quiescent (leaked)")
    # a timer task is aborted only because its incarnation ends: between its registration and its abort there must be a
    # restart request being served, the stopped() callback, or a failure of the actor
    created = {e[1]: i for i, e in enumerate(tr) if e[0] == 'abortable_new'}
    for a, e in enumerate(tr):
        if e[0] == 'abort' and e[1] in created:
            c = created[e[1]]
            legit = any((x[0] in ('task_killed', 'user_panic', 'unwind_from', 'user_abandoned', 'panic'))
                        or (x[0] == 'refresh_call' and x[1] != 'NonRestartable')
                        or (x[0] == 'user_call' and x[1] == 'stopped')
                        or (x[0] == 'user_done' and x[1] == 'started' and str(x[4]) != 'ok')
                        or (x[0] == 'task_done' and x[1] == 'loop') for x in tr[c:a])
            if not legit:
                v.append("a timer was aborted although the incarnation that registered it neither stopped, restarted nor failed")
    # ticks handled after termination is impossible by construction; idle exactness: on an idle actor k deliveries after k periods
    return v


def oracle_restart_timers(tr):
    """C07: timers registered by the previous incarnation no longer fire after a restart"""
    v = []
    ot = _owner_and_time(tr)
    starts = [i for i, e in enumerate(tr) if e[0] == 'user_call' and e[1] == 'started']
    if len(starts) < 2:
        return v
    spawn_idx = {e[1]: i for i, e in enumerate(tr) if e[0] == 'spawn'}
    for task, si in spawn_idx.items():
        # incarnation that registered it
        inc = max(j for j, s in enumerate(starts) if s <= si)
        if inc + 1 < len(starts):
            nxt = starts[inc + 1]
            late = [i for i, e in enumerate(tr) if e[0] == 'chan_push' and e[3] == 'ok' and ot[i][0] == task and i > nxt]
            if late:
                v.append("a timer registered by the previous incarnation delivered a tick after the restart")
    return v
