"""System-level exploration: program families per property and their oracles."""
import time
import z3
from engine import Unsupported
from scen_sys import Sys
from prog_timers import oracle_timers, oracle_restart_timers
from prog_registry import RegistryProgram, oracle_registry
from prog_children import ChildrenProgram, oracle_children
from prog_broker import BrokerProgram, oracle_broker
from prog_mailbox import (oracle_containment, oracle_owning, MailboxProgram, oracle_fifo, oracle_own_result, oracle_resolves, oracle_stop_barrier,
                          oracle_backpressure, oracle_handles, oracle_liveness_flags, oracle_lifecycle, oracle_stream, oracle_timeouts, oracle_live_ops)


def mailbox_programs(tier):
    """program specs; `tags`: 'q' quick+thorough, 't' thorough only"""
    P = []
    A = 'addr'

    def add(name, cap, scripts, hp=0, tag='q', **kw):
        d = dict(name=name, cap=cap, scripts=scripts, hp=hp, tag=tag, pre=(), started_actions=(), strategy='RestartOnly',
                 faults=0, max_clock=None, K=None, max_steps=60, started=None, owning=False, registry=False, mt=False, children=(), broker=None, entry=None, fault_targets=None, stream=False, timeout=None, cb_pending=None, loop_bound=None, possible=None)
        d.update(kw)
        P.append(d)
    # FIFO across paths and clients, own result, stop barrier
    add('fifo_mixed_unbounded', None, {'c1': [('send', A, 'a1'), ('call', A, 'a2')], 'c2': [('call', A, 'b1')]}, 1)
    add('fifo_mixed_bounded1', 1, {'c1': [('send', A, 'a1'), ('call', A, 'a2')], 'c2': [('send', A, 'b1')]}, 1)
    add('fifo_bounded2_send_then_call', 2, {'c1': [('send', A, 'a1'), ('call', A, 'a2')]}, 1)
    add('fifo_bounded3_burst', 3, {'c1': [('send', A, 'a1'), ('send', A, 'a2'), ('send', A, 'a3'), ('call', A, 'a4')]}, 1)
    # a long backlog drained back to back (K=0: the client runs until it is done, then the loop): thresholds inside the receive path
    add('fifo_long_backlog', None, {'c1': [('send', A, f'a{i}') for i in range(1, 41)] + [('call', A, 'a41')]}, 0, K=0, max_steps=140, loop_bound=64)
    add('fifo_long_backlog_bounded', 3, {'c1': [('send', A, f'a{i}') for i in range(1, 13)] + [('call', A, 'a13')]}, 0, K=0, max_steps=140, tag='t', loop_bound=64)
    add('kinds', None, {'c1': [('mk_sender', A, 's'), ('mk_caller', A, 'c'), ('sender_send', 's', 'a1'), ('caller_call', 'c', 'a2'), ('ping', A), ('call', A, 'a3')]})
    add('stop_race', None, {'c1': [('call', A, 'a1'), ('stop', A), ('call', A, 'a2')], 'c2': [('send', A, 'b1')]})
    add('stop_race_bounded', 1, {'c1': [('send', A, 'a1'), ('stop', A), ('send', A, 'a2')], 'c2': [('call', A, 'b1')]})
    add('await_clone_after_termination', None, {'c1': [('stop', A), ('clone', A, 'a2'), ('await', 'a2'), ('clone', A, 'a3'), ('await', 'a3'), ('stopped', A)]})
    add('ctx_stop_with_backlog', None, {'c1': [('send', A, 'ctxstop:1'), ('send', A, 'a2'), ('call', A, 'a3')]})
    add('ctx_stop_with_backlog_bounded', 2, {'c1': [('send', A, 'ctxstop:1'), ('send', A, 'a2')], 'c2': [('call', A, 'b1')]}, tag='t')
    add('halt_and_await', None, {'c1': [('clone', A, 'a2'), ('send', A, 'a1'), ('halt', 'a2')], 'c2': [('await', A)]})
    add('backpressure_bounded2_burst', 2, {'c1': [('send', A, 'a1'), ('send', A, 'a2'), ('send', A, 'a3'), ('send', A, 'a4'), ('send', A, 'a5')]}, 1, K=2)
    # send futures created first and awaited later (`Sender::send` is a plain fn returning a boxed future; join_all(sends))
    add('backpressure_prepared_sends', 1, {'c1': [('mk_sender', A, 's'), ('sender_send', 's', 'a1'), ('prepare_send', 's', 'a2', 'f2'), ('prepare_send', 's', 'a3', 'f3'), ('prepare_send', 's', 'a4', 'f4'),
                                                   ('prepared_send', 'f2', 'a2'), ('prepared_send', 'f3', 'a3'), ('prepared_send', 'f4', 'a4')]}, 1, K=2)
    add('backpressure_prepared_sends2', 2, {'c1': [('mk_sender', A, 's'), ('prepare_send', 's', 'a1', 'f1'), ('prepare_send', 's', 'a2', 'f2'), ('prepare_send', 's', 'a3', 'f3'), ('prepare_send', 's', 'a4', 'f4'),
                                                    ('prepared_send', 'f1', 'a1'), ('prepared_send', 'f2', 'a2'), ('prepared_send', 'f3', 'a3'), ('prepared_send', 'f4', 'a4')]}, 1, K=2, tag='t')
    add('force_pileup_bounded1', 1, {'c1': [('call', A, 'a1')], 'c2': [('call', A, 'b1')], 'c3': [('call', A, 'd1'), ('stop', A)]}, 1, K=3)
    # the same families with the capacity left symbolic (n in 0..3, decided by z3 at every comparison)
    add('fifo_mixed_sym', 'sym', {'c1': [('send', A, 'a1'), ('call', A, 'a2')], 'c2': [('send', A, 'b1')]}, 1)
    add('backpressure_stop_parked_sender0', 0, {'c1': [('send', A, 'a1'), ('send', A, 'a2'), ('send', A, 'a3')], 'c2': [('stop', A)]}, 0, cb_pending={'stopped': 1}, K=2)
    add('backpressure_stop_parked_senders1', 1, {'c1': [('send', A, 'a1'), ('send', A, 'a2'), ('send', A, 'a3')], 'c2': [('send', A, 'b1'), ('stop', A)]}, 0, cb_pending={'stopped': 1}, K=2)
    add('stop_race_sym', 'sym', {'c1': [('send', A, 'a1'), ('stop', A), ('send', A, 'a2')], 'c2': [('call', A, 'b1')]})
    add('backpressure_sym', 'sym', {'c1': [('send', A, 'a1')], 'c2': [('send', A, 'b1')]}, 1)
    add('backpressure_sym3', 'sym', {'c1': [('send', A, 'a1'), ('send', A, 'a2')], 'c2': [('send', A, 'b1')]}, 1, 't')
    add('backpressure_weak', 1, {'c1': [('mk_weak_sender', A, 'ws'), ('weak_send', 'ws', 'a1'), ('weak_send', 'ws', 'a2')], 'c2': [('call', A, 'b1')]}, 1, 't')
    add('fifo_three_clients', 1, {'c1': [('send', A, 'a1')], 'c2': [('call', A, 'b1')], 'c3': [('send', A, 'd1')]}, 1, 't')
    # handle programs (C05 / C15 / C14)
    add('handles_caller_only', None, {'c1': [('downgrade', A, 'w'), ('mk_weak_sender', A, 'ws'), ('mk_weak_caller', A, 'wc'), ('mk_caller', A, 'c'), ('drop', A), ('upgrade', 'w'), ('upgrade_sender', 'ws'), ('upgrade_caller', 'wc'), ('caller_call', 'c', 'ctxstop:1')]})
    add('handles_sender_only', None, {'c1': [('downgrade', A, 'w'), ('mk_weak_sender', A, 'ws'), ('mk_weak_caller', A, 'wc'), ('mk_sender', A, 's'), ('drop', A), ('upgrade', 'w'), ('upgrade_sender', 'ws'), ('upgrade_caller', 'wc'), ('sender_send', 's', 'ctxstop:1')]})
    add('handles_ctx_stop_then_restart', None, {'c1': [('send', A, 'ctxboth:1'), ('send', A, 'a1')]})
    add('handles_ctx_stop_restart_two_msgs', None, {'c1': [('mk_sender', A, 's'), ('drop', A), ('sender_send', 's', 'ctxstop:1'), ('sender_send', 's', 'ctxrestart:2')]})
    add('handles_sender_restart', None, {'c1': [('mk_sender', A, 's'), ('drop', A), ('sender_send', 's', 'ctxrestart:1'), ('sender_send', 's', 'a1')]})
    add('handles_last_drop_drains', 1, {'c1': [('send', A, 'a1'), ('send', A, 'a2'), ('downgrade', A, 'w'), ('drop', A), ('upgrade', 'w')]}, 1)
    add('handles_upgrade_revives', None, {'c1': [('downgrade', A, 'w'), ('clone', A, 'a2'), ('drop', A), ('upgrade', 'w', 'a3'), ('drop', 'a2'), ('call', 'a3', 'a1'), ('drop', 'a3'), ('upgrade', 'w')]})
    add('handles_upgrade_after_self_stop', None, {'c1': [('downgrade', A, 'w'), ('mk_weak_sender', A, 'ws'), ('send', A, 'ctxstop:1'), ('ping', A), ('upgrade', 'w'), ('upgrade_sender', 'ws')]})
    add('handles_two_tasks', None, {'c1': [('mk_sender', A, 's'), ('drop', A), ('sender_send', 's', 'a1'), ('drop', 's')], 'c2': [('upgrade', 'w'), ('upgrade', 'w')]}, 0, 't', pre=(('downgrade', A, 'w'),))
    add('flags_unawaited', None, {'c1': [('running', A), ('stop', A), ('ping', A), ('stopped', A), ('running', A)]})
    add('flags_awaited', None, {'c1': [('clone', A, 'a2'), ('stop', A), ('await', 'a2'), ('stopped', A), ('downgrade', A, 'w'), ('weak_stopped', 'w')]})
    add('flags_during_stopped_hook', None, {'c1': [('stop', A)], 'c2': [('stopped', 'a2'), ('running', 'a2'), ('weak_stopped', 'w')]}, pre=(('clone', A, 'a2'), ('downgrade', A, 'w')), cb_pending={'stopped': 1}, K=3)
    add('flags_weak_after_last_drop', None, {'c1': [('send', A, 'a1'), ('send', A, 'a2'), ('downgrade', A, 'w'), ('drop', A), ('weak_stopped', 'w'), ('weak_stopped', 'w')]}, 1)
    add('restart_then_last_drop', None, {'c1': [('send', A, 'a1'), ('restart', A), ('send', A, 'a2'), ('drop', A)]})
    add('restart_then_last_drop_bounded', 1, {'c1': [('restart', A), ('send', A, 'a1'), ('send', A, 'a2'), ('drop', A)]}, 1)
    add('halt_after_failure', None, {'c1': [('clone', A, 'a2'), ('await', 'a2'), ('halt', A)]}, started={1: 'err'})
    add('flags_failed_start', None, {'c1': [('clone', A, 'a2'), ('await', 'a2'), ('stopped', A), ('running', A), ('downgrade', A, 'w'), ('weak_stopped', 'w'), ('call', A, 'a1')]}, started={1: 'err'})
    add('await_twice_after_failure', None, {'c1': [('clone', A, 'a2'), ('clone', A, 'a3'), ('await', 'a2'), ('await', 'a3'), ('stopped', A), ('await', A)]}, started={1: 'err'})
    add('await_two_clients_after_failure', None, {'c1': [('await', A)], 'c2': [('await', A), ('await', A)]}, started={1: 'err'})
    add('flags_after_mut_await', None, {'c1': [('stop', A), ('await_mut', A), ('stopped', A), ('running', A), ('downgrade', A, 'w'), ('weak_stopped', 'w'), ('clone', A, 'a2'), ('stopped', 'a2'), ('await', 'a2'), ('await_mut', A)]})
    add('flags_after_mut_await_failed', None, {'c1': [('await_mut', A), ('stopped', A), ('clone', A, 'a2'), ('running', 'a2'), ('await', 'a2')]}, started={1: 'err'})
    add('flags_killed', None, {'c1': [('ping', A), ('clone', A, 'a2'), ('await', 'a2'), ('stopped', A), ('running', A)]}, faults=1, K=2)
    # failure containment (C06 / C02): the actor task is cancelled at any step / a handler panics
    add('kill_with_pending_call', None, {'c1': [('call', A, 'a1'), ('call', A, 'a2')], 'c2': [('await', A)]}, 1, faults=1, K=2)
    add('panic_in_handler', None, {'c1': [('send', A, 'a1'), ('call', A, 'panic:1'), ('call', A, 'a3')], 'c2': [('await', A)]}, 0, K=2)
    add('panic_bounded_pending_send', 0, {'c1': [('call', A, 'panic:1')], 'c2': [('send', A, 'b1'), ('send', A, 'b2')]}, 0, K=3)
    # timers (C10 / C05 / C07 / C06)
    add('timers_stop', None, {'c1': [('stop', A)]}, started_actions=(('interval', 'tick', 2),), max_clock=5, K=2, max_steps=24)
    add('timers_mixed_drop', None, {'c1': [('drop', A)]}, started_actions=(('interval', 'tick', 2), ('delayed_send', 'ds', 3)), max_clock=6, K=2, max_steps=24)
    add('timers_weak_upgrade_after_drop', None, {'c1': [('ping', A), ('downgrade', A, 'w'), ('mk_weak_sender', A, 'ws'), ('drop', A), ('upgrade', 'w'), ('upgrade_sender', 'ws')]}, started_actions=(('interval', 'tick', 2),), max_clock=4, K=2, max_steps=24)
    add('timers_interval_with_bounded', 1, {'c1': [('send', A, 'a1'), ('stop', A)]}, 1, started_actions=(('interval_with', 'tw', 1),), max_clock=2, K=1, max_steps=20)
    # an interval_with timer that has already ticked must not keep the actor alive (a handle cached across its sleep would)
    add('timers_interval_with_last_drop', None, {'c1': [('ping', A), ('downgrade', A, 'w'), ('sleep', 2), ('drop', A), ('upgrade', 'w')]}, started_actions=(('interval_with', 'tw', 1),), max_clock=3, K=1, max_steps=30)
    add('timers_delayed_exec_last_drop', None, {'c1': [('ping', A), ('drop', A)]}, started_actions=(('delayed_exec', 'de', 2), ('interval', 'tick', 1)), max_clock=3, K=1, max_steps=20)
    add('timers_delayed_exec_kill', None, {'c1': [('ping', A)]}, started_actions=(('delayed_exec', 'de', 2), ('interval', 'tick', 1)), max_clock=3, K=1, faults=1, max_steps=20)
    add('timers_handler_panics', None, {'c1': [('call', A, 'panic:1')]}, started_actions=(('delayed_exec', 'de', 2), ('interval', 'tick', 1)), max_clock=3, K=1, max_steps=20)
    add('timers_restart_delayed_send', None, {'c1': [('restart', A), ('ping', A)]}, started_actions=(('delayed_send', 'ds', 3),), max_clock=5, K=2, max_steps=20)
    add('timers_delayed_exec_suspended', None, {'c1': [('ping', A), ('stop', A)]}, started_actions=(('delayed_exec', 'de', 1),), cb_pending={'userfut': 1}, max_clock=3, K=4, max_steps=24)
    add('timers_restart', None, {'c1': [('restart', A), ('ping', A)]}, started_actions=(('interval', 'tick', 2),), max_clock=4, K=2, max_steps=20)
    add('timers_restart_non_restartable', None, {'c1': [('restart', A), ('ping', A), ('stop', A)]}, started_actions=(('interval', 'tick', 2),), max_clock=4, K=2, max_steps=22, strategy='NonRestartable')
    add('timers_restart_recreate', None, {'c1': [('restart', A), ('ping', A), ('stop', A)]}, started_actions=(('interval', 'tick', 2),), max_clock=4, K=2, max_steps=22, strategy='RecreateFromDefault', tag='t')
    add('timers_fail_restart', None, {'c1': [('restart', A), ('ping', A)]}, started_actions=(('delayed_exec', 'de', 3), ('interval', 'tick', 2)), started={2: 'err'}, max_clock=6, K=1, max_steps=22)
    # restart strategies through the builder terminals (C07): the strategy named by the builder chain must be the one that serves restarts
    for ep, strat in (('build_spawn', 'RestartOnly'), ('build_spawn_owning', 'RestartOnly'), ('build_recreate_spawn', 'RecreateFromDefault'),
                      ('build_recreate_spawn_owning', 'RecreateFromDefault'), ('build_non_restartable_spawn', 'NonRestartable'),
                      ('build_non_restartable_spawn_owning', 'NonRestartable'), ('spawn', 'RestartOnly'), ('spawn_owning', 'RestartOnly')):
        if ep.endswith('owning'):
            sc = [('entry', ep), ('to_addr', 'o', 'a'), ('call', 'a', 'a1'), ('restart', 'a'), ('call', 'a', 'a2'), ('stop', 'a'), ('join', 'o')]
        else:
            sc = [('entry', ep), ('call', A, 'a1'), ('restart', A), ('call', A, 'a2'), ('stop', A), ('await', A)]
        add('strategy_' + ep, None, {'c1': sc}, entry=ep, strategy=strat, K=1)
    # handler timeouts on the virtual clock (C11): budget counted from the start of each handler, also after idle gaps
    add('timeout_idle_then_slow_handler', None, {'c1': [('sleep', 3), ('call', A, 'a1'), ('call', A, 'a2')]}, 1, timeout=(2, False), max_clock=6, K=2, max_steps=30)
    add('timeout_fail_on_timeout', None, {'c1': [('call', A, 'a1'), ('call', A, 'a2'), ('stop', A)], 'c2': [('await', A)]}, 1, timeout=(1, True), max_clock=4, K=2, max_steps=30)
    add('timeout_slow_started', None, {'c1': [('call', A, 'a1'), ('stop', A)]}, 0, timeout=(1, False), cb_pending={'started': 1}, max_clock=3, K=2, max_steps=30)
    add('timeout_slow_stopped', None, {'c1': [('call', A, 'a1'), ('stop', A)], 'c2': [('await', A)]}, 0, timeout=(1, False), cb_pending={'stopped': 1}, max_clock=3, K=2, max_steps=30)
    add('timeout_backlog', None, {'c1': [('send', A, 'a1'), ('send', A, 'a2'), ('send', A, 'a3'), ('call', A, 'a4')]}, 1, timeout=(1, False), max_clock=2, K=0, max_steps=40)
    add('timeout_hanging_handler', None, {'c1': [('call', A, 'hang:1'), ('call', A, 'a2'), ('stop', A)]}, 0, timeout=(2, False), max_clock=4, K=1, max_steps=30)
    # the same through the builder terminals: the configuration given to the builder must reach the loop
    for ep in ('build_timeout_spawn', 'build_timeout_spawn_owning'):
        h = 'addr' if not ep.endswith('owning') else 'a'
        pre_ops = [('entry', ep)] + ([('to_addr', 'o', 'a')] if ep.endswith('owning') else [])
        add('timeout_' + ep, None, {'c1': pre_ops + [('call', h, 'hang:1'), ('call', h, 'a2'), ('stop', h)]}, 0, entry=ep, timeout=(1, False), max_clock=3, K=1, max_steps=30)
    add('timeout_none_but_fail_flag', None, {'c1': [('call', A, 'a1'), ('call', A, 'a2')]}, 1, timeout=(None, True), max_clock=12, K=1, max_steps=24)
    add('timeout_none_configured', None, {'c1': [('sleep', 2), ('call', A, 'a1')]}, 1, max_clock=4, K=1, max_steps=20, tag='t')
    # stream-attached actors (C13; also C03 lifecycle with finished): the stream is a queue fed by a producer task
    add('stream_items_then_end', None, {'prod': [('feed', 'i1'), ('feed', 'i2'), ('end_stream',)], 'c1': [('call', A, 'a1'), ('await', A)]}, stream=True, K=1, strategy='NonRestartable')
    add('stream_stop_never_ends', None, {'prod': [('feed', 'i1')], 'c1': [('send', A, 'a1'), ('stop', A), ('await', A)]}, stream=True, K=2, strategy='NonRestartable')
    add('stream_timeout_slow_item', None, {'prod': [('feed', 'i1'), ('feed', 'i2'), ('end_stream',)], 'c1': [('await', A)]}, stream=True, timeout=(1, False), cb_pending={'stream': 1}, max_clock=3, K=1, strategy='NonRestartable', max_steps=30)
    # a stream that is ready at every poll must not starve the mailbox: SOME schedule resolves the call (program-level
    # possibility check, see `possible`); exploration is cut by max_steps, the stream never ends
    add('stream_always_ready_call', None, {'c1': [('call', A, 'a1')]}, stream='repeat', cb_pending={'stream': 1}, K=1, strategy='NonRestartable', max_steps=8,
        possible=('call', 'Ok', 'a call to an actor whose stream is always ready is answered in no explored schedule: the stream starves the mailbox'))
    add('stream_last_drop', None, {'prod': [('feed', 'i1'), ('feed', 'i2')], 'c1': [('send', A, 'a1'), ('drop', A)]}, stream=True, K=1, strategy='NonRestartable')
    add('stream_pending_handlers_bounded', 1, {'prod': [('feed', 'i1'), ('end_stream',)], 'c1': [('send', A, 'a1'), ('send', A, 'a2')]}, 1, stream=True, K=2, strategy='NonRestartable', tag='t')
    add('own_timeout_slow_stopped', None, {'c1': [('entry', 'build_timeout_spawn_owning'), ('to_addr', 'o', 'a'), ('call', 'a', 'a1'), ('stop', 'a'), ('join', 'o')]},
        entry='build_timeout_spawn_owning', timeout=(1, False), cb_pending={'stopped': 1}, max_clock=3, K=2, max_steps=30)
    # OwningAddr (C17; join futures also serve C02 'everything resolves')
    O = 'o'
    add('own_join_twice', None, {'c1': [('o_call', O, 'a1'), ('to_addr', O, 'a'), ('stop', 'a'), ('join', O), ('join', O)]}, owning=True)
    add('own_two_join_futures', None, {'c1': [('await_fut', 'j1')], 'c2': [('to_addr', O, 'a'), ('stop', 'a'), ('join', O)]}, owning=True, pre=(('mk_join', O, 'j1'),))
    add('own_parked_join_future', None, {'c1': [('mk_join', O, 'j1'), ('poll_once', 'j1'), ('to_addr', O, 'a'), ('stop', 'a'), ('join', O)]}, owning=True)
    add('own_join_after_last_drop', None, {'c1': [('o_send', O, 'a1'), ('mk_join', O, 'j1'), ('drop', O), ('await_fut', 'j1')]}, owning=True)
    add('own_join_after_panic', None, {'c1': [('o_call', O, 'panic:1'), ('join', O)]}, owning=True)
    add('own_join_twice_failed_start', None, {'c1': [('join', O), ('join', O)]}, owning=True, started={1: 'err'})
    add('own_join_twice_after_panic', None, {'c1': [('o_call', O, 'panic:1'), ('join', O), ('join', O)]}, owning=True)
    add('own_join_failed_restart', None, {'c1': [('o_call', O, 'a1'), ('to_addr', O, 'a'), ('restart', 'a'), ('call', 'a', 'a2'), ('join', O), ('join', O)]}, owning=True, started={2: 'err'})
    add('own_join_only_handle', None, {'c1': [('to_addr', O, 'a'), ('downgrade', 'a', 'w'), ('drop', 'a'), ('mk_join', O, 'j1'), ('poll_once', 'j1'), ('upgrade', 'w', 'a2'), ('call', 'a2', 'a1'), ('stop', 'a2'), ('await_fut', 'j1')]}, owning=True)
    add('own_join_failed_start', None, {'c1': [('join', O)]}, owning=True, started={1: 'err'})
    add('own_consume', 1 if False else None, {'c1': [('o_send', O, 'a1'), ('consume', O)]}, owning=True)
    add('own_detach', None, {'c1': [('detach', O, 'a'), ('call', 'a', 'a1'), ('downgrade', 'a', 'w'), ('drop', 'a'), ('upgrade', 'w')]}, owning=True)
    add('own_join_killed', None, {'c1': [('o_call', O, 'a1'), ('join', O)]}, owning=True, faults=1, K=2)
    # children (C16)
    R, AC = 'register_child', 'add_child'
    add('children_broadcast_stop', None, {'c1': [('call', A, 'bcast:1'), ('stop', A)]}, children=(('c1', R, False), ('c2', AC, False)), K=2)
    add('children_parent_restarts', None, {'c1': [('call', A, 'bcast:1'), ('restart', A), ('call', A, 'bcast:2'), ('stop', A)]}, children=(('c1', R, False), ('c2', AC, False)), K=1)
    add('children_broadcast_unit', None, {'c1': [('call', A, 'bcastu:1'), ('call', A, 'bcast:2'), ('stop', A)]}, children=(('c1', R, False), ('c2', AC, False)), K=1)
    add('children_two_under_m', None, {'c1': [('call', A, 'bcast:1'), ('call', A, 'bcast:2'), ('drop', A)]}, children=(('c1', R, False), ('c2', R, False)), K=1)
    add('children_sibling_stopped_first', None, {'c1': [('stop', 'c1'), ('ping', 'c1'), ('call', A, 'bcast:1'), ('stop', A)]}, children=(('c1', R, True), ('c2', R, False)), K=1)
    add('children_sibling_panicked', None, {'c1': [('call', 'c1', 'panic:1'), ('call', A, 'bcast:1'), ('stop', A)]}, children=(('c1', R, True), ('c2', R, False)), K=1)
    add('children_parent_killed', None, {'c1': [('call', A, 'bcast:1'), ('ping', A)]}, children=(('c1', R, False), ('c2', AC, False)), K=1, faults=1)
    add('children_parent_panics', None, {'c1': [('send', 'c1', 'x1'), ('call', A, 'panic:1')]}, children=(('c1', R, True), ('c2', AC, False)), K=1)
    # trees: c1 is the parent's child and registers c2 (the grandchild) in its own started()
    add('children_tree_stop', None, {'c1': [('call', A, 'bcast:1'), ('stop', A)]}, children=(('c1', R, False), ('c2', R, False, 'c1')), K=2)
    add('children_tree_last_drop_backlog', None, {'c1': [('send', 'c2', 'x1'), ('call', A, 'bcast:1'), ('drop', 'c2'), ('drop', A)]}, children=(('c1', R, False), ('c2', AC, True, 'c1')), K=1)
    add('children_tree_mid_broadcasts', None, {'c1': [('call', 'c1', 'bcast:1'), ('call', A, 'bcast:2'), ('drop', 'c1'), ('stop', A)]}, children=(('c1', R, True), ('c2', R, False, 'c1'), ('c3', R, False)), K=1)
    add('children_tree_root_killed', None, {'c1': [('call', A, 'bcast:1'), ('ping', A)]}, children=(('c1', R, False), ('c2', AC, False, 'c1')), K=1, faults=1, tag='t')
    add('children_tree_mid_panics', None, {'c1': [('call', 'c1', 'panic:1'), ('call', A, 'bcast:1'), ('stop', A)]}, children=(('c1', R, True), ('c2', R, False, 'c1'), ('c3', R, False)), K=1, tag='t')
    # one child registered twice by its parent, under `()` and under M: it hears both kinds of broadcast, once each
    add('children_registered_twice', None, {'c1': [('call', A, 'bcastu:1'), ('call', A, 'bcast:2'), ('drop', A)]}, children=(('c1', 'both', False), ('c2', R, False)), K=1)
    add('children_kept_outside', None, {'c1': [('stop', A), ('call', 'c1', 'x1'), ('drop', 'c1')]}, children=(('c1', AC, True),), K=2)
    # broker (C09)
    add('broker_two_pubs', None, {'pub': [('ping', 's1'), ('publish', 'p1'), ('publish', 'p2')]}, broker=dict(nactors=2, subscribers=(1,)), K=1, max_steps=80)
    add('broker_two_subscribers_two_publishers', None, {'pa': [('ping', 's1'), ('ping', 's2'), ('publish', 'p1')], 'pb': [('ping', 's1'), ('ping', 's2'), ('publish', 'p2')]}, broker=dict(nactors=2, subscribers=(1, 2)), K=1, max_steps=90, tag='t')
    add('broker_two_subscribers_one_publisher', None, {'pa': [('ping', 's1'), ('ping', 's2'), ('publish', 'p1'), ('publish', 'p2')]}, broker=dict(nactors=2, subscribers=(1, 2)), K=1, max_steps=90)
    add('broker_subscriber_dropped', None, {'pub': [('ping', 's1'), ('ping', 's2'), ('downgrade', 's1', 'w1'), ('drop', 's1'), ('publish', 'p1'), ('upgrade', 'w1'), ('publish', 'p2')]}, broker=dict(nactors=2, subscribers=(1, 2)), K=1, max_steps=90)
    add('broker_dead_subscriber', None, {'pub': [('ping', 's1'), ('ping', 's2'), ('stop', 's1'), ('ping', 's1'), ('publish', 'p1'), ('publish', 'p2')]}, broker=dict(nactors=2, subscribers=(1, 2)), K=1, max_steps=90)
    add('broker_unsubscribe_resubscribe', None, {'pub': [('ping', 's1'), ('get_broker', 'b'), ('addr_subscribe', 'b', 's1'), ('addr_publish', 'b', 'p1'), ('unsubscribe', 'b', 's1'), ('addr_publish', 'b', 'p2')]}, broker=dict(nactors=2, subscribers=(1,)), K=1, max_steps=90)
    add('broker_ctx_publish_mt', None, {'pub': [('ping', 's1'), ('send', 's2', 'ctxpub:1')], 'other': [('get_broker', 'b')]}, broker=dict(nactors=2, subscribers=(1,)), K=2, max_steps=90, mt=True)
    # service registry (C08 / C14 consequences)
    add('registry_sequential', None, {'c1': [('already_running',), ('from_registry', 'a'), ('already_running',), ('call', 'a', 'm1'), ('from_registry', 'b'), ('stop', 'a'), ('ping', 'b'), ('already_running',), ('from_registry', 'c'), ('try_from_registry',)]}, registry=True)
    add('registry_register', None, {'c1': [('spawn', 'x'), ('register', 'x', 'x2'), ('spawn', 'y'), ('register', 'y'), ('try_from_registry', 'r'), ('stop', 'r'), ('ping', 'r'), ('spawn', 'z'), ('register', 'z', 'z2'), ('already_running',), ('unregister', 'u'), ('already_running',), ('unregister',)]}, registry=True)
    add('registry_setup_after_death', None, {'c1': [('from_registry', 'a'), ('stop', 'a'), ('ping', 'a'), ('setup',), ('already_running',), ('try_from_registry',), ('from_registry', 'b'), ('call', 'b', 'm1')]}, registry=True)
    add('registry_try_after_unawaited_stop', None, {'c1': [('from_registry', 'a'), ('stop', 'a'), ('ping', 'a'), ('try_from_registry',), ('already_running',)]}, registry=True)
    add('registry_replace', None, {'c1': [('from_registry', 'a'), ('spawn', 'x'), ('replace', 'x', 'old'), ('from_registry', 'b'), ('ping', 'old'), ('unregister',), ('try_from_registry',)]}, registry=True)
    add('registry_concurrent_lookup', None, {'c1': [('from_registry', 'a'), ('call', 'a', 'm1')], 'c2': [('from_registry', 'b'), ('call', 'b', 'm2')]}, registry=True)
    add('registry_concurrent_lookup_mt', None, {'c1': [('from_registry', 'a'), ('call', 'a', 'm1')], 'c2': [('from_registry', 'b'), ('call', 'b', 'm2')]}, registry=True, mt=True, K=3)
    add('registry_lookup_vs_register_mt', None, {'c1': [('from_registry', 'a')], 'c2': [('spawn', 'x'), ('register', 'x')]}, registry=True, mt=True, K=3)
    add('registry_lookup_vs_register', None, {'c1': [('from_registry', 'a')], 'c2': [('spawn', 'x'), ('register', 'x')], 'c3': [('try_from_registry',), ('already_running',)]}, registry=True, K=3)
    add('registry_service_killed', None, {'c1': [('from_registry', 'a'), ('call', 'a', 'm1'), ('from_registry', 'b'), ('call', 'b', 'm2'), ('already_running',), ('try_from_registry',)]}, registry=True, faults=1, fault_targets=('loop1',), K=2)
    add('registry_respawn_race', None, {'c1': [('from_registry', 'a'), ('stop', 'a'), ('from_registry', 'b')], 'c2': [('from_registry', 'c'), ('ping', 'c')]}, registry=True, K=3, tag='t')
    return [p for p in P if tier == 'thorough' or p['tag'] == 'q']


def evaluate(tr, status, cap, scripts, spec=None):
    """all oracles on one trace -> {pid: [messages]} (cap: None | int)"""
    out = {k: [] for k in PIDS}
    multi = spec is not None and (spec.get('broker') or spec.get('children') or spec.get('registry'))
    if not (spec is not None and spec.get('broker')):
        # (broker programs: the subscribing started() is driven as the Context::subscribe coroutine, its completion is not an event)
        out['C03'] += oracle_lifecycle(tr, single=not multi, fail_on_timeout=bool(spec and spec.get('timeout') and spec['timeout'][1]))
    if spec is not None and spec.get('broker'):
        out['C09'] += oracle_broker(tr, status, dict(spec['broker'], scripts=scripts))
        out['C02'] += oracle_resolves(tr, status, scripts)
        # the broker never keeps a subscriber alive: once the script dropped a subscriber's only strong handle, weak
        # handles to it no longer upgrade and it terminates (C05 / C09)
        from prog_mailbox import _ops
        weak_of = {}
        dropped = {}
        for o in _ops(tr):
            sc = scripts[o['client']][o['pc']]
            if o['kind'] == 'downgrade':
                weak_of[sc[2]] = sc[1]
            elif o['kind'] == 'drop' and o['end'] is not None:
                dropped[sc[1]] = o['end']
            elif o['kind'] == 'upgrade' and o['end'] is not None and weak_of.get(sc[1]) in dropped and o['begin'] > dropped[weak_of[sc[1]]]:
                if str(o['result']).startswith('Some'):
                    m = f"a weak handle to subscriber {weak_of[sc[1]]} upgraded after its last strong handle had been dropped (something keeps it alive)"
                    out['C05'].append(m)
                    out['C09'].append(m)
        return out
    if spec is not None and spec.get('children'):
        out['C16'] += oracle_children(tr, status, spec)
        if any(str(op[2]).startswith('panic') and op[1] != 'addr' for sc in scripts.values() for op in sc if len(op) > 2):
            # C06: a child that died by a fault must not keep its siblings from working ("other actors keep working")
            out['C06'] += [m for m in out['C16'] if 'never reached' in m]
        out['C02'] += oracle_resolves(tr, status, scripts)
        out['C06'] += [m for m in oracle_containment(tr, status, scripts) if 'callback' not in m]
        return out
    if spec is not None and spec.get('entry'):
        from prog_entry import oracle_restart_strategy
        out['C07'] += oracle_restart_strategy(tr, spec['strategy'])
        out['C01'] += oracle_fifo(tr, scripts)
        out['C02'] += oracle_own_result(tr, scripts)
        out['C02'] += oracle_resolves(tr, status, scripts)
        if not spec.get('timeout'):
            out['C04'] += oracle_stop_barrier(tr, scripts)
        if spec['entry'].endswith('owning'):
            out['C17'] += oracle_owning(tr, status, scripts)
        if spec.get('timeout'):
            out['C11'] += oracle_timeouts(tr, spec.get('timeout'), status)
        return out
    if spec is not None and spec.get('registry'):
        reg = oracle_registry(tr, status, scripts)
        out['C08'] += reg
        # C14: "on-demand respawn, register-if-stopped, try_from_registry react to a termination nobody awaited"
        out['C14'] += [m for m in reg if 'terminated instance' in m or 'alive: False' in m]
        if spec.get('faults'):
            # C06: the registry treats a service whose task died as not running
            out['C06'] += reg
        out['C02'] += oracle_resolves(tr, status, scripts)
        out['C02'] += oracle_own_result(tr, scripts)
        return out
    from prog_entry import oracle_spurious_refresh
    sp = oracle_spurious_refresh(tr)
    out['C07'] += sp
    if spec is not None and spec.get('timeout'):
        out['C11'] += sp
    out['C01'] += oracle_fifo(tr, scripts)
    out['C02'] += oracle_own_result(tr, scripts)
    out['C02'] += oracle_resolves(tr, status, scripts)
    if not (spec is not None and (spec.get('timeout') or spec.get('faults') or spec.get('started') or spec.get('stream'))):
        lo = oracle_live_ops(tr, scripts)
        out['C02'] += [m for m in lo if m.startswith(('call', 'ping'))]
        out['C12'] += [m for m in lo if m.startswith(('stop', 'restart'))]
        out['C15'] += [m for m in lo if m.startswith(('stop', 'restart'))]
    if not (spec is not None and spec.get('timeout')):
        # (with a handler timeout a call may legitimately fail before any stop: abandoned handler / failed actor)
        out['C04'] += oracle_stop_barrier(tr, scripts)
    if cap != 'sym':
        out['C12'] += oracle_backpressure(tr, cap, scripts)
    c05, c15 = oracle_handles(tr, status, scripts, initial='o' if (spec or {}).get('owning') else 'addr')
    ends_by_stream = spec is not None and spec.get('stream') and any(op[0] == 'end_stream' for sc in scripts.values() for op in sc)
    if not ends_by_stream:      # (the end of its stream is a legitimate reason for an actor to stop while handles exist)
        out['C05'] += c05
        out['C15'] += c15
    out['C14'] += oracle_liveness_flags(tr, scripts)
    if spec is not None and spec.get('stream'):
        out['C13'] += oracle_stream(tr, status, scripts)
        # "... or when the last strong handle is dropped ... even if the stream never ends"
        out['C13'] += [m for m in c05 if 'never terminated' in m]
    if spec is not None and (spec.get('timeout') or any(op[0] == 'sleep' for sc in scripts.values() for op in sc)):
        out['C11'] += oracle_timeouts(tr, spec.get('timeout'), status)
    if spec is not None:
        if spec['started_actions']:
            tm = oracle_timers(tr, status, spec['started_actions'])
            out['C10'] += tm
            # the same facts are part of other properties' statements
            out['C10'] += [m for m in c05 if 'never terminated' in m or 'upgrade' in m]          # timers never keep the actor alive
            out['C15'] += [m for m in tm if 'aborted although' in m or 'delivered nothing' in m]  # its timers keep firing
            if any(op[0] == 'restart' for sc in scripts.values() for op in sc):
                out['C07'] += [m for m in tm if 'aborted although' in m]                          # a non-restartable actor ignores the request
            if spec['faults'] or any(str(op[2]).startswith('panic') for sc in scripts.values() for op in sc if len(op) > 2) or spec['started']:
                # C06: once the actor died its timers stop firing
                out['C06'] += [m for m in tm if 'terminated' in m or 'leaked' in m]
            out['C07'] += oracle_restart_timers(tr)
        cont = oracle_containment(tr, status, scripts)
        out['C06'] += cont
        out['C02'] += [m for m in cont if 'awaiting the address' in m]      # awaits resolve with the termination result
        out['C04'] += [m for m in cont if 'awaiting the address' in m or 'await issued after' in m]   # Ok exactly when graceful
        if any(op[0] == 'restart' for sc in scripts.values() for op in sc):
            # C07: what was accepted after the restart request is handled by the incarnation after it
            out['C07'] += [m for m in c05 if 'was accepted but not handled' in m]
        if spec['started_actions']:
            # C05: termination by the last drop is the same as after stop - every timer ends with the actor
            if any(op[0] == 'drop' for sc in scripts.values() for op in sc):
                out['C05'] += [m for m in out['C10'] if 'after the actor had terminated' in m or 'was not aborted' in m]
        if spec.get('owning'):
            out['C17'] += oracle_owning(tr, status, scripts)
        if spec.get('registry'):
            out['C08'] += oracle_registry(tr, status, scripts)
    return out


PIDS = ('C01', 'C02', 'C03', 'C04', 'C05', 'C06', 'C07', 'C08', 'C09', 'C10', 'C11', 'C12', 'C13', 'C14', 'C15', 'C16', 'C17')


def make_program(functions, enums, repo, spec, spawner=None):
    """the Sys and the Program object of one program spec"""
    name, cap, scripts, hp, pre = spec['name'], spec['cap'], spec['scripts'], spec['hp'], spec['pre']
    sy = Sys(functions, enums, repo, loop_bound=spec.get('loop_bound') or 12)
    if spawner:
        sy.spawner = spawner
    sy.strategy = spec['strategy']
    sy.user_script['started_actions'] = spec['started_actions']
    for k, v in (spec['started'] or {}).items():
        sy.user_script[('started', k)] = v
    for k, v in (spec.get('cb_pending') or {}).items():
        sy.user_script[('pending', k)] = v
    if spec.get('entry'):
        from prog_entry import EntryProgram
        sy.strategy = 'RestartOnly'
        p = EntryProgram(sy, None, scripts, max_steps=spec['max_steps'])
    elif spec['broker']:
        for i in spec['broker']['subscribers']:
            sy.user_script[('started_actions', f'ctx{i-1}')] = (('subscribe',),)
        p = BrokerProgram(sy, cap, scripts, handler_pending=hp, max_steps=spec['max_steps'], pre=pre, nchildren=spec['broker']['nactors'])
    elif spec['children']:
        for (h, how, kept, *par) in spec['children']:
            pc = 'ctx0' if not par or par[0] is None else f"ctx{int(par[0][1:])}"
            sy.user_script[('started_actions', pc)] = sy.user_script.get(('started_actions', pc), ()) + ((how, h) + (('keep',) if kept else ()),)
        p = ChildrenProgram(sy, cap, scripts, handler_pending=hp, max_steps=spec['max_steps'], pre=pre, nchildren=len(spec['children']), children_spec=spec['children'])
    else:
        cls = RegistryProgram if spec['registry'] else MailboxProgram
        p = cls(sy, cap, scripts, handler_pending=hp, max_steps=spec['max_steps'], pre=pre)
        p.stream = spec.get('stream') or False
        p.timeout_cfg = spec.get('timeout')
    p.faults = spec['faults']
    if spec.get('fault_targets'):
        p.fault_targets = tuple(spec['fault_targets'])
    if spec['mt']:
        from scen_sys import mt_yield_hook
        sy.eng.yield_hook = mt_yield_hook
    p.owning = spec['owning']
    if spec['max_clock'] is not None:
        p.max_clock = spec['max_clock']
    p.max_preemptions = spec['K']
    return sy, p


def run(functions, enums, repo, tier, max_steps=60, seed=0, validate=None):
    results = {k: [] for k in PIDS}
    stats = {'paths': 0, 'solver_calls': 0, 'solver_s': 0.0, 'steps': 0, 'bound': 0, 'truncated': 0, 'programs': [],
             'functions': set(), 'modelled': {}, 'opaque': {}, 'samples': [], 'distinct_traces': 0}
    distinct = set()
    t0 = time.time()
    import random
    import replay as RP
    rnd = random.Random(seed)
    binary = RP.build()
    validate = validate if validate is not None else (6 if tier == 'quick' else 40)
    stats['traces_validated_against_impl'] = 0
    stats['native_mismatches'] = []
    stats['native_confirmations'] = {}
    stats['unsupported'] = []
    native_strat = None
    for spec in mailbox_programs(tier):
        name, cap, scripts, hp, pre = spec['name'], spec['cap'], spec['scripts'], spec['hp'], spec['pre']
        sy, p = make_program(functions, enums, repo, spec)
        native_ok = not spec.get('entry') and not spec.get('stream') and not spec.get('timeout') and not any(op[0] == 'sleep' for sc in scripts.values() for op in sc) and not spec['broker'] and not spec['children'] and not spec['registry'] and not spec['owning'] and not spec['started_actions'] and not spec['faults'] and not spec['started'] and not spec.get('cb_pending') and \
            not any(str(op[2]).startswith('panic') for sc in scripts.values() for op in sc if len(op) > 2)
        n = 0
        reservoir = []
        first_witness = {}
        possible_seen, possible_witness = False, None

        def leaves():
            # an unsupported construct met in one program makes the run inconclusive but does not hide what the
            # schedules explored so far (and the other programs) show
            try:
                t_prog = time.time()
                budget = 900 if tier == 'quick' else 3600
                st0 = p.setup()
                for lf in p.explore(st0):
                    yield lf
                    if time.time() - t_prog > budget:
                        raise Unsupported(f"time budget of the program exhausted ({budget} s): a change made its schedule space explode")
            except Unsupported as ex:
                stats.setdefault('unsupported', []).append(f"{name}: {ex}")
        for leaf in leaves():
            n += 1
            tr = leaf.events[leaf.events.index(('setup_done',)) + 1:]
            # reservoir sample of schedules for native validation
            if leaf.status == 'quiescent' and native_ok:
                if len(reservoir) < validate:
                    reservoir.append((leaf, tr))
                else:
                    j = rnd.randrange(n)
                    if j < validate:
                        reservoir[j] = (leaf, tr)
            if leaf.status == 'truncated':
                stats['truncated'] += 1
                continue
            if leaf.status == 'bound':
                stats['bound'] += 1
            if leaf.status == 'panicked':
                results['C06'].append(dict(prog=name, cap=str(cap), msg='a task other than the actor died by a panic: ' + str([e for e in tr if e[0] == 'panic'][-1:]), trace=tr, choices=[]))
            if leaf.status in ('unreachable',):
                results['C01'].append(dict(prog=name, msg='MIR unreachable reached', trace=tr, choices=leaf.choices))
                continue

            def add(pid, msgs, extra=None):
                for m in msgs:
                    rec = dict(prog=name, cap=str(cap), msg=m, trace=tr, choices=[str(c) for c in leaf.choices], extra=extra)
                    results[pid].append(rec)
                    first_witness.setdefault((pid, m), (leaf, tr, rec))
            ev = evaluate(tr, leaf.status, cap, scripts, spec)
            for pid, msgs in ev.items():
                add(pid, msgs)
            if spec.get('possible'):
                kind, pref, _why = spec['possible']
                from prog_mailbox import _ops
                if any(o['kind'] == kind and o['end'] is not None and str(o['result']).startswith(pref) for o in _ops(tr)):
                    possible_seen = True
                elif possible_witness is None:
                    possible_witness = (leaf, tr)
            if cap == 'sym':
                # behind(n): ask z3 whether some capacity on this path is exceeded
                behind = oracle_backpressure(tr, None if cap is None else 10 ** 6, scripts, want_counts=True)
                for b in behind:
                    if sy.eng.feasible(leaf, p.n < b):
                        m = sy.eng.model(leaf, p.n < b)
                        add('C12', [f"{b} sends had returned Ok while their messages were still queued in a mailbox bounded to a smaller n"], extra=b)
            distinct.add(hash((name, tuple(tr))))
            if len(stats['samples']) < 8 and n % 53 == 1:
                stats['samples'].append({'program': name, 'capacity': str(cap), 'status': leaf.status, 'trace': [list(map(str, e)) for e in tr][:60]})
        if spec.get('possible') and not possible_seen and possible_witness is not None and not any(u.startswith(name + ':') for u in stats.get('unsupported', [])):
            # a possibility ("in SOME schedule the call is answered") that no explored schedule realises: starvation
            lf, ptr = possible_witness
            for pid in ('C02', 'C13'):
                results[pid].append(dict(prog=name, cap=str(cap), msg=spec['possible'][2] + f" ({n} schedules explored)", trace=ptr, choices=[]))
        # ---- native validation: replay sampled schedules on the real crates, poll by poll
        for leaf, tr in reservoir:
            ncap = cap
            if cap == 'sym':
                m = sy.eng.model(leaf)
                ncap = m.eval(p.n, model_completion=True).as_long()
            nat, err = RP.run_native(binary, ncap, scripts, tr, pre=pre)
            if err:
                stats['native_mismatches'].append(f"{name}: {err}")
                continue
            same, diff = RP.same_observable(tr, nat)
            if same:
                stats['traces_validated_against_impl'] += 1
            else:
                stats['native_mismatches'].append(f"{name}: {diff}")
        if spec.get('entry') and name.startswith('strategy_'):
            import native_entry
            if native_strat is None:
                native_strat = native_entry.strategies()
            got = native_strat.get(name)
            want = {'RestartOnly': ['stopped', 'started'], 'RecreateFromDefault': ['stopped', 'default', 'started'], 'NonRestartable': []}[spec['strategy']]
            flagged = any(pid == 'C07' for (pid, m) in first_witness)
            if got == want and not flagged:
                stats['traces_validated_against_impl'] += 1
            elif got != want and not flagged:
                stats['native_mismatches'].append(f"{name}: symbolic exploration finds nothing, the native run served the restart with {got}")
        # ---- native confirmation of every distinct violation (first witness)
        for (pid, m), (leaf, tr, rec) in first_witness.items():
            if spec.get('entry') and pid == 'C07' and 'restart request of an actor configured' in m:
                # builder strategy programs: the same program on the real crate (hv-entry strategies)
                import native_entry
                if native_strat is None:
                    native_strat = native_entry.strategies()
                got = native_strat.get(name)
                want = {'RestartOnly': ['stopped', 'started'], 'RecreateFromDefault': ['stopped', 'default', 'started'], 'NonRestartable': []}[spec['strategy']]
                confirmed = got is not None and got != want
                for r in results[pid]:
                    if r['prog'] == name and r['msg'] == m:
                        r['native_confirmed'] = confirmed
                        r['native_note'] = f"native run served the restart with {got}"
                stats['native_confirmations'][f"{pid}:{name}:{m}"] = confirmed
                continue
            if not native_ok:
                continue      # timers / faults: confirmed by dedicated native scenarios (hv-replay finding ...)
            ncap = cap
            if cap == 'sym':
                mdl = sy.eng.model(leaf, p.n < rec['extra']) if rec.get('extra') is not None else sy.eng.model(leaf)
                ncap = mdl.eval(p.n, model_completion=True).as_long()
            nat, err = RP.run_native(binary, ncap, scripts, tr, pre=pre)
            confirmed = False
            why = err
            if nat is not None:
                nst = 'quiescent' if leaf.status == 'quiescent' else leaf.status
                nres = evaluate(nat, nst, ncap, scripts, spec)
                confirmed = m in nres[pid] or (pid == 'C12' and any('sends had returned Ok' in x for x in nres[pid]))
                if not confirmed:
                    why = f"native run of the same schedule does not show it (native {pid} findings: {nres[pid][:2]})"
            for r in results[pid]:
                if r['prog'] == name and r['msg'] == m:
                    r['native_confirmed'] = confirmed
                    r['native_note'] = why
                    r['native_capacity'] = str(ncap)
            stats['native_confirmations'][f"{pid}:{name}:{m}"] = confirmed
        e = sy.eng
        stats['paths'] += n
        stats['solver_calls'] += e.stats.solver_calls
        stats['solver_s'] += e.stats.solver_time
        stats['steps'] += e.stats.steps
        stats['functions'] |= e.stats.functions
        for k, v in e.stats.modelled.items():
            stats['modelled'][k] = stats['modelled'].get(k, 0) + v
        for k, v in e.stats.opaque.items():
            stats['opaque'][k] = stats['opaque'].get(k, 0) + v
        stats['programs'].append(dict(name=name, multi_threaded_yield_points=spec['mt'], capacity=str(cap), pre=[list(o) for o in pre], started_actions=[list(a) for a in spec['started_actions']], faults=spec['faults'], strategy=spec['strategy'], max_preemptions=spec['K'], max_clock=spec['max_clock'], scripts={k: [list(o) for o in v] for k, v in scripts.items()}, handler_pending=hp, schedules=n))
    stats['wall_s'] = time.time() - t0
    stats['distinct_traces'] = len(distinct)
    stats['functions'] = sorted(stats['functions'])
    return results, stats


if __name__ == '__main__':
    import sys, mir, mirdump
    sys.path.insert(0, '/verif')
    from check import hannibal_enums
    text, info = mirdump.dump()
    fs = mir.parse_mir(text)
    res, stats = run(fs, hannibal_enums(), mirdump.REPO, sys.argv[1] if len(sys.argv) > 1 else 'quick')
    print({k: len(v) for k, v in res.items()})
    for k, v in res.items():
        seen = set()
        for x in v:
            key = (x['prog'], x['msg'])
            if key in seen:
                continue
            seen.add(key)
            print(k, x['prog'], x['msg'])
    print({k: v for k, v in stats.items() if k not in ('samples', 'functions', 'modelled', 'programs')})
    for p in stats['programs']:
        print('  ', p['name'], p['schedules'])
