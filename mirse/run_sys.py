"""System-level exploration: program families per property and their oracles."""
import time
import z3
from engine import Unsupported
from scen_sys import Sys
from prog_mailbox import (MailboxProgram, oracle_fifo, oracle_own_result, oracle_resolves, oracle_stop_barrier,
                          oracle_backpressure, oracle_handles, oracle_liveness_flags)


def mailbox_programs(tier):
    """(name, cap, scripts, handler_pending, tags) - tags say which oracles apply"""
    P = []
    A = 'addr'
    # FIFO across paths and clients, own result, stop barrier
    P.append(('fifo_mixed_unbounded', None, {'c1': [('send', A, 'a1'), ('call', A, 'a2')], 'c2': [('call', A, 'b1')]}, 1, 'q'))
    P.append(('fifo_mixed_bounded1', 1, {'c1': [('send', A, 'a1'), ('call', A, 'a2')], 'c2': [('send', A, 'b1')]}, 1, 'q'))
    P.append(('fifo_bounded2_send_then_call', 2, {'c1': [('send', A, 'a1'), ('call', A, 'a2')]}, 1, 'q'))
    P.append(('kinds', None, {'c1': [('mk_sender', A, 's'), ('mk_caller', A, 'c'), ('sender_send', 's', 'a1'), ('caller_call', 'c', 'a2'), ('ping', A), ('call', A, 'a3')]}, 0, 'q'))
    P.append(('stop_race', None, {'c1': [('call', A, 'a1'), ('stop', A), ('call', A, 'a2')], 'c2': [('send', A, 'b1')]}, 0, 'q'))
    P.append(('stop_race_bounded', 1, {'c1': [('send', A, 'a1'), ('stop', A), ('send', A, 'a2')], 'c2': [('call', A, 'b1')]}, 0, 'q'))
    P.append(('halt_and_await', None, {'c1': [('clone', A, 'a2'), ('send', A, 'a1'), ('halt', 'a2')], 'c2': [('await', A)]}, 0, 'q'))
    P.append(('backpressure_sym', 'sym', {'c1': [('send', A, 'a1')], 'c2': [('send', A, 'b1')]}, 1, 'q'))
    P.append(('backpressure_sym3', 'sym', {'c1': [('send', A, 'a1'), ('send', A, 'a2')], 'c2': [('send', A, 'b1')]}, 1, 't'))
    P.append(('backpressure_weak', 1, {'c1': [('mk_weak_sender', A, 'ws'), ('weak_send', 'ws', 'a1'), ('weak_send', 'ws', 'a2')], 'c2': [('call', A, 'b1')]}, 1, 't'))
    P.append(('fifo_three_clients', 1, {'c1': [('send', A, 'a1')], 'c2': [('call', A, 'b1')], 'c3': [('send', A, 'd1')]}, 1, 't'))
    # handle programs (C05 / C15 / C14)
    P.append(('handles_caller_only', None, {'c1': [('downgrade', A, 'w'), ('mk_weak_sender', A, 'ws'), ('mk_weak_caller', A, 'wc'), ('mk_caller', A, 'c'), ('drop', A), ('upgrade', 'w'), ('upgrade_sender', 'ws'), ('upgrade_caller', 'wc'), ('caller_call', 'c', 'ctxstop:1')]}, 0, 'q'))
    P.append(('handles_sender_only', None, {'c1': [('downgrade', A, 'w'), ('mk_weak_caller', A, 'wc'), ('mk_sender', A, 's'), ('drop', A), ('upgrade', 'w'), ('upgrade_caller', 'wc'), ('sender_send', 's', 'ctxstop:1')]}, 0, 'q'))
    P.append(('handles_last_drop_drains', 1, {'c1': [('send', A, 'a1'), ('send', A, 'a2'), ('downgrade', A, 'w'), ('drop', A), ('upgrade', 'w')]}, 1, 'q'))
    P.append(('handles_upgrade_revives', None, {'c1': [('downgrade', A, 'w'), ('clone', A, 'a2'), ('drop', A), ('upgrade', 'w', 'a3'), ('drop', 'a2'), ('call', 'a3', 'a1'), ('drop', 'a3'), ('upgrade', 'w')]}, 0, 'q'))
    P.append(('handles_two_tasks', None, {'c1': [('mk_sender', A, 's'), ('drop', A), ('sender_send', 's', 'a1'), ('drop', 's')], 'c2': [('upgrade', 'w'), ('upgrade', 'w')]}, 0, 't', (('downgrade', A, 'w'),)))
    P.append(('flags_unawaited', None, {'c1': [('running', A), ('stop', A), ('ping', A), ('stopped', A), ('running', A)]}, 0, 'q'))
    P.append(('flags_awaited', None, {'c1': [('clone', A, 'a2'), ('stop', A), ('await', 'a2'), ('stopped', A), ('downgrade', A, 'w'), ('weak_stopped', 'w')]}, 0, 'q'))
    return [p for p in P if tier == 'thorough' or p[4] == 'q']


def evaluate(tr, status, cap, scripts, sym_n=None):
    """all oracles on one trace -> {pid: [messages]} (cap: None | int)"""
    out = {k: [] for k in ('C01', 'C02', 'C04', 'C05', 'C12', 'C14', 'C15')}
    out['C01'] += oracle_fifo(tr, scripts)
    out['C02'] += oracle_own_result(tr, scripts)
    out['C02'] += oracle_resolves(tr, status, scripts)
    out['C04'] += oracle_stop_barrier(tr, scripts)
    if cap != 'sym':
        out['C12'] += oracle_backpressure(tr, cap, scripts)
    c05, c15 = oracle_handles(tr, status, scripts)
    out['C05'] += c05
    out['C15'] += c15
    out['C14'] += oracle_liveness_flags(tr, scripts)
    return out


def run(functions, enums, repo, tier, max_steps=60, seed=0, validate=None):
    results = {k: [] for k in ('C01', 'C02', 'C04', 'C05', 'C12', 'C14', 'C15')}
    stats = {'paths': 0, 'solver_calls': 0, 'solver_s': 0.0, 'steps': 0, 'bound': 0, 'truncated': 0, 'programs': [],
             'functions': set(), 'modelled': {}, 'opaque': {}, 'samples': [], 'distinct_traces': 0}
    distinct = set()
    t0 = time.time()
    import random
    import replay as RP
    rnd = random.Random(seed)
    binary = RP.build()
    validate = validate if validate is not None else (6 if tier == 'quick' else 40)
    stats['traces_validated_against_impl'] = 0
    stats['native_mismatches'] = []
    stats['native_confirmations'] = {}
    for prog in mailbox_programs(tier):
        (name, cap, scripts, hp, _tag) = prog[:5]
        pre = prog[5] if len(prog) > 5 else ()
        sy = Sys(functions, enums, repo)
        p = MailboxProgram(sy, cap, scripts, handler_pending=hp, max_steps=max_steps, pre=pre)
        st = p.setup()
        n = 0
        reservoir = []
        first_witness = {}
        for leaf in p.explore(st):
            n += 1
            tr = leaf.events[leaf.events.index(('setup_done',)) + 1:]
            # reservoir sample of schedules for native validation
            if leaf.status == 'quiescent':
                if len(reservoir) < validate:
                    reservoir.append((leaf, tr))
                else:
                    j = rnd.randrange(n)
                    if j < validate:
                        reservoir[j] = (leaf, tr)
            if leaf.status == 'truncated':
                stats['truncated'] += 1
                continue
            if leaf.status == 'bound':
                stats['bound'] += 1
            if leaf.status in ('unreachable',):
                results['C01'].append(dict(prog=name, msg='MIR unreachable reached', trace=tr, choices=leaf.choices))
                continue

            def add(pid, msgs, extra=None):
                for m in msgs:
                    rec = dict(prog=name, cap=str(cap), msg=m, trace=tr, choices=[str(c) for c in leaf.choices], extra=extra)
                    results[pid].append(rec)
                    first_witness.setdefault((pid, m), (leaf, tr, rec))
            add('C01', oracle_fifo(tr, scripts))
            add('C02', oracle_own_result(tr, scripts))
            add('C02', oracle_resolves(tr, leaf.status, scripts))
            add('C04', oracle_stop_barrier(tr, scripts))
            if cap == 'sym':
                # behind(n): ask z3 whether some capacity on this path is exceeded
                behind = oracle_backpressure(tr, None if cap is None else 10 ** 6, scripts, want_counts=True)
                for b in behind:
                    if sy.eng.feasible(leaf, p.n < b):
                        m = sy.eng.model(leaf, p.n < b)
                        add('C12', [f"{b} sends had returned Ok while their messages were still queued in a mailbox bounded to a smaller n"], extra=b)
            else:
                add('C12', oracle_backpressure(tr, cap, scripts))
            c05, c15 = oracle_handles(tr, leaf.status, scripts)
            add('C05', c05)
            add('C15', c15)
            add('C14', oracle_liveness_flags(tr, scripts))
            distinct.add(hash((name, tuple(tr))))
            if len(stats['samples']) < 8 and n % 53 == 1:
                stats['samples'].append({'program': name, 'capacity': str(cap), 'status': leaf.status, 'trace': [list(map(str, e)) for e in tr][:60]})
        # ---- native validation: replay sampled schedules on the real crates, poll by poll
        for leaf, tr in reservoir:
            ncap = cap
            if cap == 'sym':
                m = sy.eng.model(leaf)
                ncap = m.eval(p.n, model_completion=True).as_long()
            nat, err = RP.run_native(binary, ncap, scripts, tr, pre=pre)
            if err:
                stats['native_mismatches'].append(f"{name}: {err}")
                continue
            same, diff = RP.same_observable(tr, nat)
            if same:
                stats['traces_validated_against_impl'] += 1
            else:
                stats['native_mismatches'].append(f"{name}: {diff}")
        # ---- native confirmation of every distinct violation (first witness)
        for (pid, m), (leaf, tr, rec) in first_witness.items():
            ncap = cap
            if cap == 'sym':
                mdl = sy.eng.model(leaf, p.n < rec['extra']) if rec.get('extra') is not None else sy.eng.model(leaf)
                ncap = mdl.eval(p.n, model_completion=True).as_long()
            nat, err = RP.run_native(binary, ncap, scripts, tr, pre=pre)
            confirmed = False
            why = err
            if nat is not None:
                nst = 'quiescent' if leaf.status == 'quiescent' else leaf.status
                nres = evaluate(nat, nst, ncap, scripts)
                confirmed = m in nres[pid] or (pid == 'C12' and any('sends had returned Ok' in x for x in nres[pid]))
                if not confirmed:
                    why = f"native run of the same schedule does not show it (native {pid} findings: {nres[pid][:2]})"
            for r in results[pid]:
                if r['prog'] == name and r['msg'] == m:
                    r['native_confirmed'] = confirmed
                    r['native_note'] = why
                    r['native_capacity'] = str(ncap)
            stats['native_confirmations'][f"{pid}:{name}:{m}"] = confirmed
        e = sy.eng
        stats['paths'] += n
        stats['solver_calls'] += e.stats.solver_calls
        stats['solver_s'] += e.stats.solver_time
        stats['steps'] += e.stats.steps
        stats['functions'] |= e.stats.functions
        for k, v in e.stats.modelled.items():
            stats['modelled'][k] = stats['modelled'].get(k, 0) + v
        for k, v in e.stats.opaque.items():
            stats['opaque'][k] = stats['opaque'].get(k, 0) + v
        stats['programs'].append(dict(name=name, capacity=str(cap), pre=[list(o) for o in pre], scripts={k: [list(o) for o in v] for k, v in scripts.items()}, handler_pending=hp, schedules=n))
    stats['wall_s'] = time.time() - t0
    stats['distinct_traces'] = len(distinct)
    stats['functions'] = sorted(stats['functions'])
    return results, stats


if __name__ == '__main__':
    import sys, mir, mirdump
    sys.path.insert(0, '/verif')
    from check import hannibal_enums
    text, info = mirdump.dump()
    fs = mir.parse_mir(text)
    res, stats = run(fs, hannibal_enums(), mirdump.REPO, sys.argv[1] if len(sys.argv) > 1 else 'quick')
    print({k: len(v) for k, v in res.items()})
    for k, v in res.items():
        seen = set()
        for x in v:
            key = (x['prog'], x['msg'])
            if key in seen:
                continue
            seen.add(key)
            print(k, x['prog'], x['msg'])
    print({k: v for k, v in stats.items() if k not in ('samples', 'functions', 'modelled', 'programs')})
    for p in stats['programs']:
        print('  ', p['name'], p['schedules'])
