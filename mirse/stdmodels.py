"""More models of small std combinators (Option / Result / bool / mem / iterators / Vec / integers).

They are not needed by the current tree; they exist so that a *changed* tree that uses the ordinary vocabulary of Rust
(`unwrap_or_else`, `ok_or_else`, `Result::map`, `bool::then`, `mem::take`, `Iterator::any` ...) is still executed instead of
making the checks INCONCLUSIVE.  Installed after sysmodels: where both match, the older model wins.
Conventions as in sysmodels: discriminants must be concrete (else Unsupported), closures are called through `call_fnlike`
with a continuation that post-processes the closure's result."""
import re

from engine import Engine, VSym, VAgg, VScalar, VRef, VConst, UNIT, TOMB, Unsupported
from models import _load, _store, _target_of_pin
from sysmodels import (some, NONE, ok, err, call_fnlike, deref_arg, _opt_disc, peel)


def _res_disc(e, st, r, what):
    d = e.concrete_int(st, e.discriminant_of(st, r))
    if d is None:
        raise Unsupported(f"{what} on a symbolic Result")
    return d


def _deliver(e, st, dest, target, val):
    f = st.frames[-1]
    e.write_place(st, f, dest, val)
    f.bb = target
    return None


def c_wrap_ok(e, st, data, rv):
    return _deliver(e, st, data[0], data[1], ok(rv))


def c_wrap_err(e, st, data, rv):
    return _deliver(e, st, data[0], data[1], err(rv))


def c_not(e, st, data, rv):
    b = e.as_int_expr(rv)
    if not isinstance(b, int):
        raise Unsupported("symbolic predicate result")
    return _deliver(e, st, data[0], data[1], VScalar(not b))


def _call(e, st, t, f, argvals, tag='identity'):
    if call_fnlike(e, st, t, f, argvals, tag, (t.dest, t.target)):
        return None
    raise Unsupported(f"cannot call {f!r}")


# ---------------------------------------------------------------------------- Option
def m_opt_unwrap_or_else(e, st, fr, t, a):
    o, f = a
    if _opt_disc(e, st, o, 'unwrap_or_else') == 1:
        e.dropper.drop(st, f, 'unused closure')
        return e.get_field(o, ('v', 'Some', 0))
    return _call(e, st, t, f, [])


def m_opt_ok_or_else(e, st, fr, t, a):
    o, f = a
    if _opt_disc(e, st, o, 'ok_or_else') == 1:
        e.dropper.drop(st, f, 'unused closure')
        return ok(e.get_field(o, ('v', 'Some', 0)))
    return _call(e, st, t, f, [], 'wrap_err')


def m_opt_map_or_else(e, st, fr, t, a):
    o, d, f = a
    if _opt_disc(e, st, o, 'map_or_else') == 1:
        e.dropper.drop(st, d, 'unused closure')
        return _call(e, st, t, f, [e.get_field(o, ('v', 'Some', 0))])
    e.dropper.drop(st, f, 'unused closure')
    return _call(e, st, t, d, [])


def m_opt_or(e, st, fr, t, a):
    o, b = a
    if _opt_disc(e, st, o, 'or') == 1:
        e.dropper.drop(st, b, 'unused alternative')
        return o
    return b


def m_opt_or_else(e, st, fr, t, a):
    o, f = a
    if _opt_disc(e, st, o, 'or_else') == 1:
        e.dropper.drop(st, f, 'unused closure')
        return o
    return _call(e, st, t, f, [])


def m_opt_and(e, st, fr, t, a):
    o, b = a
    if _opt_disc(e, st, o, 'and') == 1:
        e.dropper.drop(st, e.get_field(o, ('v', 'Some', 0)), 'Option::and discards the first value')
        return b
    e.dropper.drop(st, b, 'unused alternative')
    return NONE


def m_opt_is_none_or(e, st, fr, t, a):
    o, f = a
    if _opt_disc(e, st, o, 'is_none_or') == 0:
        return VScalar(True)
    return _call(e, st, t, f, [e.get_field(o, ('v', 'Some', 0))])


def m_opt_as_mut(e, st, fr, t, a):
    ref = a[0]
    o = deref_arg(e, st, ref)
    if _opt_disc(e, st, o, 'as_mut') == 0:
        return NONE
    tgt = _target_of_pin(e, st, ref)
    return some(VRef(tgt.root, tgt.path + (('v', 'Some', 0),), True))


def m_opt_copied(e, st, fr, t, a):
    o = a[0]
    if _opt_disc(e, st, o, 'copied') == 0:
        return NONE
    return some(deref_arg(e, st, e.get_field(o, ('v', 'Some', 0))))


def m_opt_flatten(e, st, fr, t, a):
    o = a[0]
    if _opt_disc(e, st, o, 'flatten') == 0:
        return NONE
    return e.get_field(o, ('v', 'Some', 0))


def m_opt_replace(e, st, fr, t, a):
    ref = peel(e, st, a[0])
    old = _load(e, st, ref)
    _store(e, st, ref, some(a[1]))
    return old


def m_opt_insert(e, st, fr, t, a):
    ref = peel(e, st, a[0])
    old = _load(e, st, ref)
    _store(e, st, ref, some(a[1]))
    e.dropper.drop(st, old, 'Option::insert drops the old value')
    return VRef(ref.root, ref.path + (('v', 'Some', 0),), True)


def m_opt_is_some_and_not(e, st, fr, t, a):
    return NotImplemented


# ---------------------------------------------------------------------------- Result
def m_res_map(e, st, fr, t, a):
    r, f = a
    if _res_disc(e, st, r, 'Result::map') == 1:
        e.dropper.drop(st, f, 'unused closure')
        return r
    x = e.get_field(r, ('v', 'Ok', 0))
    if isinstance(f, VConst):
        from models import apply_fn_item
        try:
            return ok(apply_fn_item(e, st, f, x))
        except Unsupported:
            pass
    return _call(e, st, t, f, [x], 'wrap_ok')


def m_res_and_then(e, st, fr, t, a):
    r, f = a
    if _res_disc(e, st, r, 'Result::and_then') == 1:
        e.dropper.drop(st, f, 'unused closure')
        return r
    return _call(e, st, t, f, [e.get_field(r, ('v', 'Ok', 0))])


def m_res_or_else(e, st, fr, t, a):
    r, f = a
    if _res_disc(e, st, r, 'Result::or_else') == 0:
        e.dropper.drop(st, f, 'unused closure')
        return r
    return _call(e, st, t, f, [e.get_field(r, ('v', 'Err', 0))])


def m_res_unwrap_or(e, st, fr, t, a):
    r, d = a
    if _res_disc(e, st, r, 'Result::unwrap_or') == 0:
        e.dropper.drop(st, d, 'unused default')
        return e.get_field(r, ('v', 'Ok', 0))
    e.dropper.drop(st, e.get_field(r, ('v', 'Err', 0)), 'error discarded by unwrap_or')
    return d


def m_res_unwrap_or_else(e, st, fr, t, a):
    r, f = a
    if _res_disc(e, st, r, 'Result::unwrap_or_else') == 0:
        e.dropper.drop(st, f, 'unused closure')
        return e.get_field(r, ('v', 'Ok', 0))
    return _call(e, st, t, f, [e.get_field(r, ('v', 'Err', 0))])


def m_res_is_ok_and(e, st, fr, t, a):
    r, f = a
    if _res_disc(e, st, r, 'is_ok_and') == 1:
        e.dropper.drop(st, e.get_field(r, ('v', 'Err', 0)), 'error discarded by is_ok_and')
        return VScalar(False)
    return _call(e, st, t, f, [e.get_field(r, ('v', 'Ok', 0))])


def m_res_is_err_and(e, st, fr, t, a):
    r, f = a
    if _res_disc(e, st, r, 'is_err_and') == 0:
        e.dropper.drop(st, e.get_field(r, ('v', 'Ok', 0)), 'value discarded by is_err_and')
        return VScalar(False)
    return _call(e, st, t, f, [e.get_field(r, ('v', 'Err', 0))])


def m_res_err(e, st, fr, t, a):
    r = a[0]
    if _res_disc(e, st, r, 'Result::err') == 1:
        return some(e.get_field(r, ('v', 'Err', 0)))
    e.dropper.drop(st, e.get_field(r, ('v', 'Ok', 0)), 'Result::err discards the value')
    return NONE


def m_res_as_ref(e, st, fr, t, a):
    ref = a[0]
    r = deref_arg(e, st, ref)
    tgt = _target_of_pin(e, st, ref)
    if _res_disc(e, st, r, 'Result::as_ref') == 0:
        return ok(VRef(tgt.root, tgt.path + (('v', 'Ok', 0),), False))
    return err(VRef(tgt.root, tgt.path + (('v', 'Err', 0),), False))


def m_res_unwrap(e, st, fr, t, a):
    r = a[0]
    if _res_disc(e, st, r, 'Result::unwrap') == 0:
        return e.get_field(r, ('v', 'Ok', 0))
    st.event('panic', 'explicit', 'unwrap on Err')
    st.meta['panic_now'] = True
    return [st]


def m_res_unwrap_err(e, st, fr, t, a):
    r = a[0]
    if _res_disc(e, st, r, 'Result::unwrap_err') == 1:
        return e.get_field(r, ('v', 'Err', 0))
    st.event('panic', 'explicit', 'unwrap_err on Ok')
    st.meta['panic_now'] = True
    return [st]


def m_res_map_or(e, st, fr, t, a):
    r, d, f = a
    if _res_disc(e, st, r, 'Result::map_or') == 1:
        e.dropper.drop(st, e.get_field(r, ('v', 'Err', 0)), 'error discarded by map_or')
        e.dropper.drop(st, f, 'unused closure')
        return d
    e.dropper.drop(st, d, 'unused default')
    return _call(e, st, t, f, [e.get_field(r, ('v', 'Ok', 0))])


def m_res_and(e, st, fr, t, a):
    r, b = a
    if _res_disc(e, st, r, 'Result::and') == 0:
        e.dropper.drop(st, e.get_field(r, ('v', 'Ok', 0)), 'Result::and discards the first value')
        return b
    e.dropper.drop(st, b, 'unused alternative')
    return r


def m_res_or(e, st, fr, t, a):
    r, b = a
    if _res_disc(e, st, r, 'Result::or') == 0:
        e.dropper.drop(st, b, 'unused alternative')
        return r
    e.dropper.drop(st, e.get_field(r, ('v', 'Err', 0)), 'error discarded by Result::or')
    return b


# ---------------------------------------------------------------------------- bool / mem / integers
def _concrete_bool(e, v, what):
    b = e.as_int_expr(v)
    if not isinstance(b, int):
        raise Unsupported(f"{what} on a symbolic bool")
    return bool(b)


def m_bool_then(e, st, fr, t, a):
    b, f = a
    if not _concrete_bool(e, b, 'bool::then'):
        e.dropper.drop(st, f, 'unused closure')
        return NONE
    return _call(e, st, t, f, [], 'wrap_some')


def m_bool_then_some(e, st, fr, t, a):
    b, v = a
    if _concrete_bool(e, b, 'bool::then_some'):
        return some(v)
    e.dropper.drop(st, v, 'then_some(false) drops the value')
    return NONE


def m_mem_take(e, st, fr, t, a):
    ref = peel(e, st, a[0])
    old = _load(e, st, ref)
    m = re.match(r'^(?:std::mem::)?take::<(.*)>$', t.func, re.S)
    ty = (m.group(1) if m else '').strip()
    if ty.startswith(('Option<', 'std::option::Option<')) or (isinstance(old, VAgg) and old.name == 'Option'):
        new = NONE
    elif ty.startswith(('Vec<', 'std::vec::Vec<')) or (isinstance(old, VAgg) and old.name == 'Vec'):
        new = VAgg(name='Vec', extra={'items': ()})
    elif ty in ('bool',):
        new = VScalar(False)
    elif ty in ('usize', 'u64', 'u32', 'i32', 'i64', 'u8'):
        new = VScalar(0)
    else:
        raise Unsupported(f"mem::take of {ty or old!r}")
    _store(e, st, ref, new)
    return old


def m_mem_swap(e, st, fr, t, a):
    ra, rb = peel(e, st, a[0]), peel(e, st, a[1])
    va, vb = _load(e, st, ra), _load(e, st, rb)
    _store(e, st, ra, vb)
    _store(e, st, rb, va)
    return UNIT


def _ints(e, a, what):
    xs = [e.as_int_expr(x) for x in a]
    if not all(isinstance(x, int) for x in xs):
        raise Unsupported(f"{what} on symbolic integers")
    return xs


def m_saturating_sub(e, st, fr, t, a):
    x, y = _ints(e, a, 'saturating_sub')
    return VScalar(max(0, x - y))


def m_saturating_add(e, st, fr, t, a):
    x, y = _ints(e, a, 'saturating_add')
    return VScalar(min(2 ** 64 - 1, x + y))


def m_checked_sub(e, st, fr, t, a):
    x, y = _ints(e, a, 'checked_sub')
    return some(VScalar(x - y)) if x >= y else NONE


def m_checked_add(e, st, fr, t, a):
    x, y = _ints(e, a, 'checked_add')
    return some(VScalar(x + y))


def m_wrapping_add(e, st, fr, t, a):
    x, y = _ints(e, a, 'wrapping_add')
    return VScalar((x + y) % 2 ** 64)


# ---------------------------------------------------------------------------- iterators over VecIter / Vec
def _iter_items(e, st, it):
    ref = None
    if isinstance(it, VRef):
        ref = peel(e, st, it)
        it = _load(e, st, ref)
    if not (isinstance(it, VAgg) and it.name == 'VecIter'):
        return None, None, None
    return ref, it, list(it.extra['items'][it.extra['idx']:])


def _consume(e, st, ref, it, n):
    if ref is not None:
        ex = dict(it.extra)
        ex['idx'] = it.extra['idx'] + n
        _store(e, st, ref, VAgg(name=it.name, fields=it.fields, extra=ex))


def _pred_loop(e, st, a, stop_on, result_if_stopped, result_otherwise, what):
    ref, it, items = _iter_items(e, st, a[0])
    if it is None:
        return NotImplemented
    n = 0
    res = result_otherwise
    for x in items:
        n += 1
        r = e.sys.call_closure_sync(st, a[1], [x])
        b = e.as_int_expr(r)
        if not isinstance(b, int):
            raise Unsupported(f"{what}: symbolic predicate")
        if bool(b) == stop_on:
            res = result_if_stopped(x) if callable(result_if_stopped) else result_if_stopped
            break
    _consume(e, st, ref, it, n)
    return res


def _veciter(items):
    return VAgg(name='VecIter', extra={'items': tuple(items), 'idx': 0, 'owning': False})


def _as_items(e, st, v):
    """the elements an iterable value yields (VecIter / Vec / Option), or None"""
    if isinstance(v, VRef):
        v = _load(e, st, peel(e, st, v))
    if isinstance(v, VAgg) and v.name == 'VecIter':
        return list(v.extra['items'][v.extra['idx']:])
    if isinstance(v, VAgg) and v.name == 'Vec':
        return list(v.extra['items'])
    if isinstance(v, VAgg) and v.name == 'Option':
        d = e.concrete_int(st, e.discriminant_of(st, v))
        if d is None:
            raise Unsupported("iterating a symbolic Option")
        return [e.get_field(v, ('v', 'Some', 0))] if d == 1 else []
    return None


# lazy adapters are evaluated eagerly (their closures are pure selectors in this code base; a closure that cannot be run
# to completion synchronously makes the run inconclusive)
def m_iter_filter(e, st, fr, t, a):
    items = _as_items(e, st, a[0])
    if items is None:
        return NotImplemented
    out = []
    for x in items:
        xo = st.alloc(x)
        r = e.sys.call_closure_sync(st, a[1], [VRef(('obj', xo), (), False)])
        b = e.as_int_expr(r)
        if not isinstance(b, int):
            raise Unsupported("Iterator::filter with a symbolic predicate")
        if b:
            out.append(x)
    return _veciter(out)


def m_iter_map(e, st, fr, t, a):
    items = _as_items(e, st, a[0])
    if items is None:
        return NotImplemented
    return _veciter([e.sys.call_closure_sync(st, a[1], [x]) for x in items])


def m_iter_flat_map(e, st, fr, t, a):
    items = _as_items(e, st, a[0])
    if items is None:
        return NotImplemented
    out = []
    for x in items:
        sub = _as_items(e, st, e.sys.call_closure_sync(st, a[1], [x]))
        if sub is None:
            raise Unsupported("Iterator::flat_map: the closure returned something that is not a modelled iterable")
        out += sub
    return _veciter(out)


def m_iter_find(e, st, fr, t, a):
    ref, it, items = _iter_items(e, st, a[0])
    if it is None:
        return NotImplemented
    n = 0
    res = NONE
    for x in items:
        n += 1
        xo = st.alloc(x)
        r = e.sys.call_closure_sync(st, a[1], [VRef(('obj', xo), (), False)])
        b = e.as_int_expr(r)
        if not isinstance(b, int):
            raise Unsupported("Iterator::find with a symbolic predicate")
        if b:
            res = some(x)
            break
    _consume(e, st, ref, it, n)
    return res


def m_iter_position(e, st, fr, t, a):
    ref, it, items = _iter_items(e, st, a[0])
    if it is None:
        return NotImplemented
    for i, x in enumerate(items):
        b = e.as_int_expr(e.sys.call_closure_sync(st, a[1], [x]))
        if not isinstance(b, int):
            raise Unsupported("Iterator::position with a symbolic predicate")
        if b:
            _consume(e, st, ref, it, i + 1)
            return some(VScalar(i))
    _consume(e, st, ref, it, len(items))
    return NONE


def m_slice_iter_mut(e, st, fr, t, a):
    """[T]::iter_mut / Vec::iter_mut: mutable references to the elements"""
    v = deref_arg(e, st, a[0])
    if not (isinstance(v, VAgg) and v.name == 'Vec'):
        return NotImplemented
    base = _target_of_pin(e, st, a[0])
    # mutable references straight into the sequence: path element ('item', i) is resolved by the engine
    return _veciter([VRef(base.root, base.path + (('item', i),), True) for i in range(len(v.extra['items']))])


def m_abort_new_pair(e, st, fr, t, a):
    import sysmodels as S
    oid = S.mobj(st, 'abort', aborted=False)
    st.event('abortable_new', oid)
    return VAgg(name='tuple', fields={('f', 0): S.handle('AbortHandle', oid), ('f', 1): VAgg(name='AbortRegistration', extra={'oid': oid})})


def m_abortable_new(e, st, fr, t, a):
    reg = a[1]
    if not (isinstance(reg, VAgg) and reg.name == 'AbortRegistration'):
        return NotImplemented
    return VAgg(name='Abortable', fields={('f', 0): a[0]}, extra={'oid': reg.extra['oid']})


def m_iter_any(e, st, fr, t, a):
    return _pred_loop(e, st, a, True, VScalar(True), VScalar(False), 'Iterator::any')


def m_iter_all(e, st, fr, t, a):
    return _pred_loop(e, st, a, False, VScalar(False), VScalar(True), 'Iterator::all')


def m_iter_for_each(e, st, fr, t, a):
    ref, it, items = _iter_items(e, st, a[0])
    if it is None:
        return NotImplemented
    for x in items:
        e.sys.call_closure_sync(st, a[1], [x])
    _consume(e, st, ref, it, len(items))
    return UNIT


def m_iter_count(e, st, fr, t, a):
    ref, it, items = _iter_items(e, st, a[0])
    if it is None:
        return NotImplemented
    _consume(e, st, ref, it, len(items))
    return VScalar(len(items))


def _vec_at(e, st, ref):
    v = deref_arg(e, st, ref)
    if not (isinstance(v, VAgg) and v.name == 'Vec'):
        return None
    return v


def m_vec_len(e, st, fr, t, a):
    v = _vec_at(e, st, a[0])
    return NotImplemented if v is None else VScalar(len(v.extra['items']))


def m_vec_is_empty(e, st, fr, t, a):
    v = _vec_at(e, st, a[0])
    return NotImplemented if v is None else VScalar(len(v.extra['items']) == 0)


def m_vec_pop(e, st, fr, t, a):
    v = _vec_at(e, st, a[0])
    if v is None:
        return NotImplemented
    ref = peel(e, st, a[0])
    items = v.extra['items']
    if not items:
        return NONE
    _store(e, st, ref, VAgg(name='Vec', fields=v.fields, extra={**v.extra, 'items': tuple(items[:-1])}))
    return some(items[-1])


def m_vec_clear(e, st, fr, t, a):
    v = _vec_at(e, st, a[0])
    if v is None:
        return NotImplemented
    ref = peel(e, st, a[0])
    _store(e, st, ref, VAgg(name='Vec', fields=v.fields, extra={**v.extra, 'items': ()}))
    for x in v.extra['items']:
        e.dropper.drop(st, x, 'Vec::clear')
    return UNIT


def m_vec_retain(e, st, fr, t, a):
    v = _vec_at(e, st, a[0])
    if v is None:
        return NotImplemented
    ref = peel(e, st, a[0])
    keep, dropped = [], []
    snap = st.alloc(VAgg(name='VecSnapshot', fields={('f', i): x for i, x in enumerate(v.extra['items'])}))
    for i, x in enumerate(v.extra['items']):
        r = e.sys.call_closure_sync(st, a[1], [VRef(('obj', snap), (('f', i),), False)])
        b = e.as_int_expr(r)
        if not isinstance(b, int):
            raise Unsupported("Vec::retain with a symbolic predicate")
        (keep if b else dropped).append(x)
    _store(e, st, ref, VAgg(name='Vec', fields=v.fields, extra={**v.extra, 'items': tuple(keep)}))
    for x in dropped:
        e.dropper.drop(st, x, 'Vec::retain removed the element')
    return UNIT


def m_vec_extend(e, st, fr, t, a):
    """Vec::extend(&mut v, iterable) for Option / Vec / VecIter arguments"""
    v = _vec_at(e, st, a[0])
    if v is None:
        return NotImplemented
    ref = peel(e, st, a[0])
    src = a[1]
    if isinstance(src, VAgg) and src.name == 'Option':
        new = [e.get_field(src, ('v', 'Some', 0))] if _opt_disc(e, st, src, 'Vec::extend') == 1 else []
    elif isinstance(src, VAgg) and src.name == 'Vec':
        new = list(src.extra['items'])
    elif isinstance(src, VAgg) and src.name == 'VecIter':
        new = list(src.extra['items'][src.extra['idx']:])
    else:
        raise Unsupported(f"Vec::extend from {src!r}")
    _store(e, st, ref, VAgg(name='Vec', fields=v.fields, extra={**v.extra, 'items': tuple(v.extra['items']) + tuple(new)}))
    return UNIT


def m_future_ready(e, st, fr, t, a):
    return VAgg(name='ReadyFuture', fields={('f', 0): a[0]})


def m_vecdeque_pop_front(e, st, fr, t, a):
    v = _vec_at(e, st, a[0])
    if v is None:
        return NotImplemented
    ref = peel(e, st, a[0])
    items = v.extra['items']
    if not items:
        return NONE
    _store(e, st, ref, VAgg(name='Vec', fields=v.fields, extra={**v.extra, 'items': tuple(items[1:])}))
    return some(items[0])


def m_vec_with_capacity(e, st, fr, t, a):
    return VAgg(name='Vec', extra={'items': ()})


def _vec_take_at(e, st, a, idx_of, what, swap=False):
    v = _vec_at(e, st, a[0])
    if v is None:
        return NotImplemented
    ref = peel(e, st, a[0])
    items = list(v.extra['items'])
    i = e.as_int_expr(a[1])
    if not isinstance(i, int):
        raise Unsupported(f"{what} with a symbolic index")
    if i >= len(items):
        st.event('panic', 'explicit', f"{what} index out of bounds")
        st.meta['panic_now'] = True
        return [st]
    x = items[i]
    if swap:
        items[i] = items[-1]
        items.pop()
    else:
        del items[i]
    _store(e, st, ref, VAgg(name='Vec', fields=v.fields, extra={**v.extra, 'items': tuple(items)}))
    return x


def m_vec_swap_remove(e, st, fr, t, a):
    return _vec_take_at(e, st, a, None, 'Vec::swap_remove', swap=True)


def m_vec_remove(e, st, fr, t, a):
    return _vec_take_at(e, st, a, None, 'Vec::remove')


def m_vec_insert(e, st, fr, t, a):
    v = _vec_at(e, st, a[0])
    if v is None:
        return NotImplemented
    ref = peel(e, st, a[0])
    items = list(v.extra['items'])
    i = e.as_int_expr(a[1])
    if not isinstance(i, int):
        raise Unsupported("Vec::insert with a symbolic index")
    items.insert(i, a[2])
    _store(e, st, ref, VAgg(name='Vec', fields=v.fields, extra={**v.extra, 'items': tuple(items)}))
    return UNIT


def m_entry_insert_entry(e, st, fr, t, a):
    """Entry::insert_entry(entry, value): like HashMap::insert through the entry (the old value is dropped)"""
    en = a[0]
    if not (isinstance(en, VAgg) and en.name == 'HashEntry'):
        return NotImplemented
    import sysmodels as S
    ref = en.fields[('f', 0)]
    mp = _load(e, st, ref)
    k = en.extra['key']
    keys = mp.extra['keys']
    if k in keys:
        i = keys.index(k)
        old = mp.fields[('f', i)]
        _store(e, st, ref, VAgg(name='HashMap', fields={**mp.fields, ('f', i): a[1]}, extra={'keys': keys}))
        e.dropper.drop(st, old, 'Entry::insert_entry replaces the value')
    else:
        i = len(keys)
        _store(e, st, ref, VAgg(name='HashMap', fields={**mp.fields, ('f', i): a[1]}, extra={'keys': keys + (k,)}))
    return VAgg(name='OccupiedEntry', fields={('f', 0): ref}, extra={'key': k})


def m_hashmap_clear(e, st, fr, t, a):
    import sysmodels as S
    ref, mp = S._map_at(e, st, a[0])
    if mp is None:
        return NotImplemented
    old = [mp.fields[('f', i)] for i, k in enumerate(mp.extra['keys']) if k is not None]
    _store(e, st, ref, VAgg(name='HashMap', fields={}, extra={'keys': ()}))
    for x in old:
        e.dropper.drop(st, x, 'HashMap::clear')
    return UNIT


def m_hashmap_len(e, st, fr, t, a):
    import sysmodels as S
    ref, mp = S._map_at(e, st, a[0])
    if mp is None:
        return NotImplemented
    return VScalar(sum(1 for k in mp.extra['keys'] if k is not None))


def m_hashmap_is_empty(e, st, fr, t, a):
    r = m_hashmap_len(e, st, fr, t, a)
    return r if r is NotImplemented else VScalar(r.v == 0)


def m_hashmap_contains_key(e, st, fr, t, a):
    import sysmodels as S
    ref, mp = S._map_at(e, st, a[0])
    if mp is None:
        return NotImplemented
    return VScalar(S._key_repr(e, st, a[1]) in mp.extra['keys'])


def _struct_eq(e, st, a, b, depth=0):
    """structural equality of two fully concrete values (what a derived PartialEq computes); None if not decidable"""
    a, b = deref_arg(e, st, a), deref_arg(e, st, b)
    if isinstance(a, VConst) and isinstance(b, VConst) and a.text.startswith('TypeId:') and b.text.startswith('TypeId:'):
        import sysmodels as S
        return S._key_repr(e, st, a) == S._key_repr(e, st, b)
    if isinstance(a, VScalar) and isinstance(b, VScalar):
        x, y = e.as_int_expr(a), e.as_int_expr(b)
        if isinstance(x, int) and isinstance(y, int):
            return x == y
        return None
    if isinstance(a, VAgg) and isinstance(b, VAgg) and depth < 4:
        if a.extra and 'oid' in a.extra and b.extra and 'oid' in b.extra:
            return None
        if a.name != b.name or a.vname != b.vname or set(a.fields) != set(b.fields):
            return False if (a.name == b.name and a.vname != b.vname) else None
        for k in a.fields:
            r = _struct_eq(e, st, a.fields[k], b.fields[k], depth + 1)
            if r is None:
                return None
            if not r:
                return False
        return True
    return None


# ---- std::sync::atomic (a poll is atomic in this model, so atomics are plain cells with interior mutability)
_ATOMIC = r'(std::sync::atomic::|core::sync::atomic::)?(Atomic(Bool|Usize|Isize|U8|U16|U32|U64|I8|I16|I32|I64)|Atomic::<\w+>)'
_ATOMIC_TY = r'(std::sync::atomic::|core::sync::atomic::)?(Atomic(Bool|Usize|Isize|U8|U16|U32|U64|I8|I16|I32|I64)|Atomic<\w+>)'


def _atomic_at(e, st, ref):
    r = peel(e, st, ref)
    v = _load(e, st, r)
    if isinstance(v, VAgg) and v.name == 'Atomic':
        return r, v
    return r, None


def m_atomic_new(e, st, fr, t, a):
    return VAgg(name='Atomic', fields={('f', 0): a[0]})


def m_atomic_default(e, st, fr, t, a):
    return VAgg(name='Atomic', fields={('f', 0): VScalar(False if ('AtomicBool' in t.func or 'Atomic<bool>' in t.func) else 0)})


def m_atomic_load(e, st, fr, t, a):
    r, v = _atomic_at(e, st, a[0])
    return NotImplemented if v is None else v.fields[('f', 0)]


def m_atomic_store(e, st, fr, t, a):
    r, v = _atomic_at(e, st, a[0])
    if v is None:
        return NotImplemented
    _store(e, st, VRef(r.root, r.path, True), VAgg(name='Atomic', fields={('f', 0): a[1]}))
    return UNIT


def m_atomic_swap(e, st, fr, t, a):
    r, v = _atomic_at(e, st, a[0])
    if v is None:
        return NotImplemented
    _store(e, st, VRef(r.root, r.path, True), VAgg(name='Atomic', fields={('f', 0): a[1]}))
    return v.fields[('f', 0)]


def m_atomic_fetch(e, st, fr, t, a):
    r, v = _atomic_at(e, st, a[0])
    if v is None:
        return NotImplemented
    old = v.fields[('f', 0)]
    op = re.search(r'::fetch_(add|sub|or|and)$', t.func).group(1)
    x, y = e.as_int_expr(old), e.as_int_expr(a[1])
    if not (isinstance(x, (int, bool)) and isinstance(y, (int, bool))):
        raise Unsupported("atomic read-modify-write on a symbolic value")
    new = {'add': lambda: x + y, 'sub': lambda: x - y, 'or': lambda: x | y, 'and': lambda: x & y}[op]()
    if isinstance(old.v, bool):
        new = bool(new)
    _store(e, st, VRef(r.root, r.path, True), VAgg(name='Atomic', fields={('f', 0): VScalar(new)}))
    return old


def m_into(e, st, fr, t, a):
    """<X as Into<Y>>::into(v): std's blanket impl = <Y as From<X>>::from(v); a From impl of the crate is executed from
    its MIR, the reflexive one is the identity"""
    m = re.match(r'^<(.*) as Into<(.*)>>::into$', t.func or '', re.S)
    if not m or not hasattr(e, 'sys'):
        return NotImplemented
    x, y = m.group(1).strip(), m.group(2).strip()
    if x == y:
        return a[0]
    for cand in (f"<{y} as From<{x}>>::from", f"<{y} as From<T>>::from"):
        try:
            fn = e.sys.resolver.resolve(cand)
        except Unsupported:
            fn = None
        if fn is not None and fn.nargs == 1:
            e.push_call(st, fn, list(a), ret_dest=t.dest, ret_bb=t.target, unwind_bb=t.unwind)
            return None
    # not an impl of this crate: maybe another model knows the From side
    return NotImplemented


def m_poll_next_unpin(e, st, fr, t, a):
    """StreamExt::poll_next_unpin(&mut s, cx) = Pin::new(&mut s).poll_next(cx)"""
    import sysmodels as S
    r = S.m_rx_poll_next(e, st, fr, t, a)
    return r


def m_duration_from(e, st, fr, t, a):
    from engine import duration_literal
    n = e.as_int_expr(a[0]) if isinstance(a[0], VScalar) else None
    if not isinstance(n, int):
        return NotImplemented
    return duration_literal(t.func, [str(n)])


def m_partial_ne(e, st, fr, t, a):
    """PartialEq::ne (trait default): !eq - through the type's own eq if hannibal defines one, else structurally"""
    m = re.match(r'^<(.*) as PartialEq(?:<.*>)?>::ne$', t.func, re.S)
    if m and hasattr(e, 'sys'):
        try:
            fn = e.sys.resolver.resolve(f"<{m.group(1)} as PartialEq>::eq")
        except Unsupported:
            fn = None
        if fn is not None and fn.nargs == 2:
            st.meta['conts'] = st.meta.get('conts', []) + [('not', (t.dest, t.target))]
            e.push_call(st, fn, list(a), ret_dest=None, ret_bb=-1, unwind_bb=t.unwind, tag='cont')
            return None
    r = _struct_eq(e, st, a[0], a[1])
    if r is None:
        return NotImplemented
    return VScalar(not r)


def m_partial_eq(e, st, fr, t, a):
    r = _struct_eq(e, st, a[0], a[1])
    if r is None:
        return NotImplemented
    return VScalar(r)


def m_poll_map_err(e, st, fr, t, a):
    """Poll::<Result<T, E>>::map_err(p, f): Ready(Err(x)) -> Ready(Err(f(x))), everything else unchanged"""
    pv, f = a
    d = e.concrete_int(st, e.discriminant_of(st, pv))
    if d is None:
        raise Unsupported("Poll::map_err on a symbolic Poll")
    if d != 0:
        return pv
    r = e.get_field(pv, ('v', 'Ready', 0))
    if _res_disc(e, st, r, 'Poll::map_err') == 0:
        return pv
    x = e.get_field(r, ('v', 'Err', 0))
    if isinstance(f, VConst) and '{closure' not in f.text:
        # a conversion fn item (Into::into / From::from): the error keeps its identity, wrapped like `?` does
        from sysmodels import _describe
        conv = VAgg(name='ActorError', fields={('f', 0): x}, extra={'from': _describe(x)})
        return VAgg(name='Poll', vname='Ready', disc=0, fields={('v', 'Ready', 0): err(conv)})
    y = e.sys.call_closure_sync(st, f, [x])
    return VAgg(name='Poll', vname='Ready', disc=0, fields={('v', 'Ready', 0): err(y)})


def m_poll_map_ok(e, st, fr, t, a):
    pv, f = a
    d = e.concrete_int(st, e.discriminant_of(st, pv))
    if d is None:
        raise Unsupported("Poll::map_ok on a symbolic Poll")
    if d != 0:
        return pv
    r = e.get_field(pv, ('v', 'Ready', 0))
    if _res_disc(e, st, r, 'Poll::map_ok') == 1:
        return pv
    y = e.sys.call_closure_sync(st, f, [e.get_field(r, ('v', 'Ok', 0))])
    return VAgg(name='Poll', vname='Ready', disc=0, fields={('v', 'Ready', 0): ok(y)})


def m_poll_is_ready(e, st, fr, t, a):
    p = deref_arg(e, st, a[0])
    d = e.concrete_int(st, e.discriminant_of(st, p))
    if d is None:
        raise Unsupported("Poll::is_ready on a symbolic Poll")
    return VScalar(d == 0)


def m_poll_is_pending(e, st, fr, t, a):
    r = m_poll_is_ready(e, st, fr, t, a)
    return VScalar(not r.v)


def m_thread_panicking(e, st, fr, t, a):
    """std::thread::panicking(): true while the current task unwinds (MIR cleanup path)"""
    return VScalar(bool(st.unwinding))


def install(eng: Engine):
    import re as _re
    eng.conts['wrap_ok'] = c_wrap_ok
    eng.conts['wrap_err'] = c_wrap_err
    eng.conts['not'] = c_not

    def add(rx, h):
        eng.models.append((_re.compile(rx, _re.S), h))
    O = r'^(std::option::)?Option::<.*>::'
    Rs = r'^(std::result::)?Result::<.*>::'
    add(O + r'unwrap_or_else::<', m_opt_unwrap_or_else)
    add(O + r'ok_or_else::<', m_opt_ok_or_else)
    add(O + r'map_or_else::<', m_opt_map_or_else)
    add(O + r'or$', m_opt_or)
    add(O + r'or_else::<', m_opt_or_else)
    add(O + r'and::<', m_opt_and)
    add(O + r'is_none_or::<', m_opt_is_none_or)
    add(O + r'as_mut$', m_opt_as_mut)
    add(O + r'copied$', m_opt_copied)
    add(O + r'flatten$', m_opt_flatten)
    add(O + r'replace$', m_opt_replace)
    add(O + r'insert$', m_opt_insert)
    add(Rs + r'map::<', m_res_map)
    add(Rs + r'and_then::<', m_res_and_then)
    add(Rs + r'or_else::<', m_res_or_else)
    add(Rs + r'unwrap_or$', m_res_unwrap_or)
    add(Rs + r'unwrap_or_else::<', m_res_unwrap_or_else)
    add(Rs + r'is_ok_and::<', m_res_is_ok_and)
    add(Rs + r'is_err_and::<', m_res_is_err_and)
    add(Rs + r'err$', m_res_err)
    add(Rs + r'as_ref$', m_res_as_ref)
    add(Rs + r'(unwrap|expect)$', m_res_unwrap)
    add(Rs + r'(unwrap_err|expect_err)$', m_res_unwrap_err)
    add(Rs + r'map_or::<', m_res_map_or)
    add(Rs + r'and::<', m_res_and)
    add(Rs + r'or::<', m_res_or)
    add(r'^(core::bool::<impl )?bool>?::then::<', m_bool_then)
    add(r'^(core::bool::<impl )?bool>?::then_some::<', m_bool_then_some)
    add(r'^(std::time::|core::time::)?Duration::from_(secs|millis|micros|nanos)$', m_duration_from)
    add(r'^<.* as Into<.*>>::into$', m_into)
    add(r' as (futures::)?StreamExt>::poll_next_unpin$', m_poll_next_unpin)
    add('^' + _ATOMIC + r'::new$', m_atomic_new)
    add('^<' + _ATOMIC_TY + r' as Default>::default$', m_atomic_default)
    add('^' + _ATOMIC + r'::load$', m_atomic_load)
    add('^' + _ATOMIC + r'::store$', m_atomic_store)
    add('^' + _ATOMIC + r'::swap$', m_atomic_swap)
    add('^' + _ATOMIC + r'::fetch_(add|sub|or|and)$', m_atomic_fetch)
    add(r'^<.* as PartialEq(<.*>)?>::ne$', m_partial_ne)
    add(r'^<.* as PartialEq(<.*>)?>::eq$', m_partial_eq)
    add(r'^(std::task::)?Poll::<.*>::map_err::<', m_poll_map_err)
    add(r'^(std::task::)?Poll::<.*>::map_ok::<', m_poll_map_ok)
    add(r'^(std::task::)?Poll::<.*>::is_ready$', m_poll_is_ready)
    add(r'^(std::task::)?Poll::<.*>::is_pending$', m_poll_is_pending)
    add(r'^(std::thread::)?panicking$', m_thread_panicking)
    add(r'^(std::mem::)?take::<', m_mem_take)
    add(r'^(std::mem::)?swap::<', m_mem_swap)
    add(r'^(core::num::<impl )?(usize|u64|u32|u8|i32|i64)>?::saturating_sub$', m_saturating_sub)
    add(r'^(core::num::<impl )?(usize|u64|u32|u8|i32|i64)>?::saturating_add$', m_saturating_add)
    add(r'^(core::num::<impl )?(usize|u64|u32|u8|i32|i64)>?::checked_sub$', m_checked_sub)
    add(r'^(core::num::<impl )?(usize|u64|u32|u8|i32|i64)>?::checked_add$', m_checked_add)
    add(r'^(core::num::<impl )?(usize|u64|u32|u8|i32|i64)>?::wrapping_add$', m_wrapping_add)
    # value-driven: whatever the static iterator type is called, a VecIter value is iterated as such
    import sysmodels as _S
    add(r'^<.* as Iterator>::next$', _S.m_veciter_next)
    add(r'^<.* as IntoIterator>::into_iter$', lambda e, st, fr, t, a: a[0] if isinstance(a[0], VAgg) and a[0].name == 'VecIter' else NotImplemented)
    add(r'^<.* as Iterator>::filter::<', m_iter_filter)
    add(r'^<.* as Iterator>::map::<', m_iter_map)
    add(r'^<.* as Iterator>::flat_map::<', m_iter_flat_map)
    add(r'^<.* as Iterator>::find::<', m_iter_find)
    add(r'^<.* as Iterator>::position::<', m_iter_position)
    add(r'^core::slice::<impl \[.*\]>::iter_mut$|^Vec::<.*>::iter_mut$', m_slice_iter_mut)
    add(r'AbortHandle::new_pair$', m_abort_new_pair)
    add(r'Abortable::<.*>::new$', m_abortable_new)
    add(r'^<.* as Iterator>::any::<', m_iter_any)
    add(r'^<.* as Iterator>::all::<', m_iter_all)
    add(r'^<.* as Iterator>::for_each::<', m_iter_for_each)
    add(r'^<.* as Iterator>::count$', m_iter_count)
    add(r'^(std::collections::hash_map::)?Entry::<.*>::insert_entry$', m_entry_insert_entry)
    add(r'^Hash(Map|Set)::<.*>::clear$', m_hashmap_clear)
    add(r'^Hash(Map|Set)::<.*>::len$', m_hashmap_len)
    add(r'^Hash(Map|Set)::<.*>::is_empty$', m_hashmap_is_empty)
    add(r'^HashMap::<.*>::contains_key::<', m_hashmap_contains_key)
    add(r'^<Vec<.*> as Extend<.*>>::extend::<', m_vec_extend)
    add(r'^Vec::<.*>::extend::<', m_vec_extend)
    add(r'^(std::future::)?ready::<', m_future_ready)
    add(r'^Vec::<.*>::retain::<', m_vec_retain)
    # VecDeque is the same sequence model (only the operations used on queues)
    import sysmodels as _S2
    add(r'^(std::collections::)?VecDeque::<.*>::(new|with_capacity)$', m_vec_with_capacity)
    add(r'^<(std::collections::)?VecDeque<.*> as Default>::default$', m_vec_with_capacity)
    add(r'^(std::collections::)?VecDeque::<.*>::push_back$', _S2.m_vec_push)
    add(r'^(std::collections::)?VecDeque::<.*>::pop_front$', m_vecdeque_pop_front)
    add(r'^(std::collections::)?VecDeque::<.*>::pop_back$', m_vec_pop)
    add(r'^(std::collections::)?VecDeque::<.*>::len$', m_vec_len)
    add(r'^(std::collections::)?VecDeque::<.*>::is_empty$', m_vec_is_empty)
    add(r'^(std::collections::)?VecDeque::<.*>::clear$', m_vec_clear)
    add(r'^Vec::<.*>::with_capacity$', m_vec_with_capacity)
    add(r'^Vec::<.*>::swap_remove$', m_vec_swap_remove)
    add(r'^Vec::<.*>::remove$', m_vec_remove)
    add(r'^Vec::<.*>::insert$', m_vec_insert)
    add(r'^Vec::<.*>::len$', m_vec_len)
    add(r'^Vec::<.*>::is_empty$', m_vec_is_empty)
    add(r'^Vec::<.*>::pop$', m_vec_pop)
    add(r'^Vec::<.*>::clear$', m_vec_clear)
