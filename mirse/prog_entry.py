"""Spawn entry points across runtimes (C18): each entry point is executed from the MIR of the crate built with that
runtime's feature; the runtime's spawn primitive is a contract model (tokio / async-std: dropping the join handle
detaches; smol: dropping a Task cancels it, detach() detaches).  After the entry point returned the actor must still be
running: a call is answered, stop + await end gracefully; the observable outcome must be the same on every runtime."""
from engine import State, VSym, VAgg, VScalar, VRef, VConst, UNIT, TOMB, Unsupported, _describe
from prog_registry import RegistryProgram
from prog_mailbox import _ops
from scen_sys import Msg

ENTRY_POINTS = ('spawn', 'spawn_owning', 'spawn_default', 'spawn_on_stream', 'build_spawn', 'build_bounded_spawn', 'build_spawn_owning',
                'build_recreate_spawn', 'build_non_restartable_spawn', 'build_stream_spawn', 'build_bounded_stream_spawn',
                'build_stream_spawn_owning', 'from_registry', 'build_register')
# entry points used by the restart-strategy programs (C07) only
MORE_ENTRY_POINTS = ('build_recreate_spawn_owning', 'build_non_restartable_spawn_owning', 'build_timeout_spawn_owning', 'build_timeout_spawn',
                     'build_timeout_register')
# the strategy the user asked for, by the meaning of the builder chain (what the oracle expects)
CONFIGURED = {'build_recreate_spawn': 'RecreateFromDefault', 'build_recreate_spawn_owning': 'RecreateFromDefault',
              'build_non_restartable_spawn': 'NonRestartable', 'build_non_restartable_spawn_owning': 'NonRestartable',
              'build_stream_spawn': 'NonRestartable', 'build_bounded_stream_spawn': 'NonRestartable', 'build_stream_spawn_owning': 'NonRestartable'}
STRATEGY = CONFIGURED


BLOCKING_ENTRY_POINTS = ('spawn', 'build_non_restartable_spawn', 'spawn_owning')
# runtimes whose block_on is a re-export of the runtime's own function (no hannibal code to execute): contract
BLOCK_ON_CONTRACT = {'async_runtime': ('multi_thread', 'async_std::task::block_on drives the future on the calling thread; async_std::task::spawn runs tasks on the global executor threads'),
                     'smol_runtime': ('multi_thread', 'smol::block_on drives the future on the calling thread; smol::spawn runs tasks on the global executor thread(s)')}


def block_on_flavor(sy, feat):
    """what kind of runtime hannibal::runtime::block_on hands the program to: executed from the MIR of
    runtime::block_on where hannibal has code there (tokio), the runtime's contract where it is a re-export"""
    fns = [f for f in sy.eng.functions if f.name == 'runtime::block_on']
    if not fns:
        if feat in BLOCK_ON_CONTRACT:
            return BLOCK_ON_CONTRACT[feat][0], 'contract: ' + BLOCK_ON_CONTRACT[feat][1]
        raise Unsupported(f"{feat}: hannibal::runtime::block_on has no MIR body and no contract")
    p = RegistryProgram(sy, None, {}, max_steps=10)
    st = State()
    st, _r = p.call_fn(st, fns[0], [VSym('main_future', 'F')])
    fl = [e[1] for e in st.events if e[0] == 'rt_block_on']
    if len(fl) != 1:
        raise Unsupported(f"{feat}: runtime::block_on did not hand its future to exactly one modelled runtime ({fl})")
    return fl[0], 'executed runtime::block_on'


def blocking_ops(ep):
    h = 'addr'
    pre = [('entry', ep)] + ([('to_addr', 'o', 'addr')] if ep.endswith('owning') else [])
    return pre + [('block_until', 'started'), ('stop', h), ('block_until', 'stopped')]


class EntryProgram(RegistryProgram):
    def setup(self):
        st = super().setup()
        if any(op[0] == 'block_until' for sc in self.scripts.values() for op in sc):
            self.sys.progress(st)
        return st

    def start_op(self, st, name, pc, op):
        k = op[0]
        if k == 'block_until':
            yield st, VAgg(name='leaf', extra={'kind': 'blockwait', 'n': op[1]})
            return
        if k != 'entry':
            yield from super().start_op(st, name, pc, op)
            return
        ep = op[1]
        st.meta['next_task_name'] = 'loop'
        actor = VSym('actor0', 'A')
        stream = VSym('stream', 'S')

        def done(s2, val, kind='a'):
            if isinstance(val, VAgg) and val.name == 'Result':
                if val.vname != 'Ok':
                    raise Unsupported(f"entry point returned {val!r}")
                val = val.fields[('v', 'Ok', 0)]
            self.put(s2, 'o' if kind == 'o' else 'addr', val)
            s2.event('op_end', name, pc, k, ep)
            return s2, None

        def capacity(s):
            # bounded(n) with a symbolic n in [0, 3]: one exploration covers every capacity, z3 decides each comparison
            import z3
            n = z3.Int('capacity_n')
            s.pc.append(z3.And(n >= 0, n <= 3))
            return VScalar(n)

        def builder(s):
            s, b = self.call(s, 'build', [actor])
            if ep.startswith('build_timeout'):
                # .timeout(T ticks) on the base builder (fail_on_timeout stays false)
                ticks = getattr(self, 'timeout_ticks', 1)
                s, b = self.call(s, 'BaseActorBuilder::<A, P>::timeout', [b, VAgg(name='Duration', extra={'ticks': ticks})])
            return s, b
        if ep == 'spawn':
            s2, a = self.call(st, '<Self as Spawnable<S>>::spawn', [actor]); yield done(s2, a)
        elif ep == 'spawn_owning':
            s2, o = self.call(st, '<Self as Spawnable<S>>::spawn_owning', [actor]); yield done(s2, o, 'o')
        elif ep == 'spawn_default':
            s2, r = self.call(st, 'DefaultSpawnable::spawn_default', []); yield done(s2, r)
        elif ep == 'spawn_on_stream':
            s2, r = self.call(st, 'StreamSpawnable::spawn_on_stream', [actor, stream]); yield done(s2, r)
        elif ep in ('build_spawn', 'build_bounded_spawn', 'build_spawn_owning', 'build_recreate_spawn', 'build_non_restartable_spawn') + MORE_ENTRY_POINTS:
            s2, b = builder(st)
            if ep == 'build_bounded_spawn':
                s2, b = self.call(s2, 'BaseActorBuilder::<A, P>::bounded', [b, capacity(s2)])
            else:
                s2, b = self.call(s2, 'BaseActorBuilder::<A, P>::unbounded', [b])
            if ep.startswith('build_recreate_spawn'):
                s2, b = self.call_named(s2, 'recreate_from_default', 'ActorBuilderWithChannel', b)
            if ep.startswith('build_non_restartable_spawn'):
                s2, b = self.call_named(s2, 'non_restartable', 'ActorBuilderWithChannel', b)
            if ep.endswith('spawn_owning'):
                s2, o = self.call_named(s2, 'spawn_owning', 'ActorBuilderWithChannel', b); yield done(s2, o, 'o')
            else:
                s2, a = self.call_named(s2, 'spawn', 'ActorBuilderWithChannel', b); yield done(s2, a)
        elif ep in ('build_stream_spawn', 'build_stream_spawn_owning', 'build_bounded_stream_spawn'):
            s2, b = builder(st)
            if ep == 'build_bounded_stream_spawn':
                s2, b = self.call(s2, 'BaseActorBuilder::<A, P>::bounded_on_stream::<S>', [b, capacity(s2), stream])
            else:
                s2, b = self.call(s2, 'BaseActorBuilder::<A, P>::on_stream::<S>', [b, stream])
            if ep.endswith('owning'):
                s2, o = self.call_named(s2, 'spawn_owning', 'StreamActorBuilder', b); yield done(s2, o, 'o')
            else:
                s2, a = self.call_named(s2, 'spawn', 'StreamActorBuilder', b); yield done(s2, a)
        elif ep in ('build_register', 'build_timeout_register'):
            s2, b = builder(st)
            s2, b = self.call(s2, 'BaseActorBuilder::<A, P>::unbounded', [b])
            s2, fut = self.call_named(s2, 'register', 'ActorBuilderWithChannel', b)
            yield s2, fut
        elif ep == 'from_registry':
            s2, fut = self.call(st, 'Service::from_registry', [])
            yield s2, fut
        else:
            raise Unsupported(f"unknown entry point {ep}")

    def call_fn(self, st, fn, args, allow_fork=False, tsub=None):
        r = super().call_fn(st, fn, args, allow_fork, tsub=tsub)
        # the builder's *type* carries the restart strategy: a builder method returning
        # ActorBuilderWithChannel<A, P, X> binds R := X for every later call on that value (monomorphisation)
        import re
        m = re.search(r'ActorBuilderWithChannel<A, P, (\w+)>', fn.ret_type or '')
        if m and m.group(1) in self.sys.STRATEGIES:
            self.sys.strategy = m.group(1)
        elif re.search(r'\bStreamActorBuilder<', fn.ret_type or ''):
            self.sys.strategy = 'NonRestartable'
        return r

    def call_named(self, st, meth, selfty, arg):
        """call an inherent method that exists in several impl blocks of builder.rs: pick by the self type"""
        cands = [f for f in self.eng.functions if f.name.endswith('::' + meth) and f.nargs == 1 and f.arg_types[0].split('<')[0].split('::')[-1] == selfty]
        cands = [f for i, f in enumerate(cands) if (f.name, f.header) not in [(g.name, g.header) for g in cands[:i]]]
        if len(cands) != 1:
            raise Unsupported(f"{selfty}::{meth}: {len(cands)} candidates")
        return self.call_fn(st, cands[0], [arg])

    def op_result(self, st, name, pc, op, res):
        if op[0] == 'entry':
            # async entry points: from_registry -> Addr ; build_register -> Result<(Addr, Option<Addr>)>
            if isinstance(res, VAgg) and res.name == 'Addr':
                self.put(st, 'addr', res)
                return
            if isinstance(res, VAgg) and res.name == 'Result' and res.vname == 'Ok':
                tup = res.fields[('v', 'Ok', 0)]
                self.put(st, 'addr', tup.fields[('f', 0)])
                self.drop_now(st, tup.fields[('f', 1)], None, 'replaced entry')
                return
            raise Unsupported(f"entry point produced {res!r}")
        super().op_result(st, name, pc, op, res)


def tail_ops(ep):
    owning = ep in ('spawn_owning', 'build_spawn_owning', 'build_stream_spawn_owning')
    if owning:
        return [('entry', ep), ('o_call', 'o', 'm1'), ('to_addr', 'o', 'addr'), ('stop', 'addr'), ('join', 'o')]
    return [('entry', ep), ('call', 'addr', 'm1'), ('stop', 'addr'), ('await', 'addr')]


def oracle_entry(tr, status, ep):
    v = []
    ops = _ops(tr)
    for o in ops:
        if o['kind'] in ('call', 'o_call'):
            if o['end'] is None and status == 'quiescent':
                v.append(f"after {ep} returned, a call to the actor never resolved")
            elif o['end'] is not None and not str(o['result']).startswith('Ok'):
                v.append(f"after {ep} returned, a call to the actor returned {o['result']}: the actor is not running")
        if o['kind'] == 'await' and o['end'] is not None and not str(o['result']).startswith('Ok'):
            v.append(f"after {ep}: awaiting the stopped actor yielded {o['result']}")
        if o['kind'] == 'join' and o['end'] is not None and not str(o['result']).startswith('Some'):
            v.append(f"after {ep}: join after a graceful stop yielded {o['result']}")
        if o['kind'] == 'block_until' and o['end'] is None and status in ('quiescent', 'bound'):
            v.append(f"after {ep} returned the actor did not reach {o['arg']}() while the spawning task was waiting for it without yielding: inside hannibal::runtime::block_on the actor does not run on its own")
    if any(e[0] == 'task_cancelled' for e in tr):
        v.append(f"{ep}: the actor task was cancelled ({[e for e in tr if e[0] == 'task_cancelled'][0][2]})")
    return v


def oracle_restart_strategy(tr, configured):
    """C07: every dequeued restart request is served by the strategy the program configured: default = stopped then
    started on the same value, recreate = stopped, Default::default(), started, non-restartable = ignored"""
    v = []
    idx = [i for i, e in enumerate(tr) if e[0] == 'chan_pop' and str(e[2]) == 'Restart']
    for i in idx:
        seg = []
        complete = False
        for e in tr[i + 1:]:
            if e[0] in ('chan_pop', 'task_done') or (e[0] == 'sched' and e[1] != 'loop' and False):
                complete = True
                break
            if e[0] in ('task_killed', 'task_panicked', 'user_panic', 'panic', 'task_cancelled'):
                break
            if e[0] == 'user_call' and e[1] in ('stopped', 'started'):
                seg.append(e[1])
            elif e[0] == 'default_actor':
                seg.append('default')
        if not complete:
            continue
        want = {'RestartOnly': ['stopped', 'started'], 'RecreateFromDefault': ['stopped', 'default', 'started'], 'NonRestartable': []}[configured]
        if seg != want:
            v.append(f"a restart request of an actor configured as {configured} produced {seg}, expected {want}")
    return v


def oracle_spurious_refresh(tr):
    """C07 / C11: the restart strategy runs only to serve a dequeued restart request - never after a handler timeout,
    a message or anything else"""
    v = []
    last_pop = None
    for e in tr:
        if e[0] == 'chan_pop':
            last_pop = str(e[2])
        elif e[0] == 'refresh_call':
            if last_pop != 'Restart':
                v.append(f"the restart strategy ({e[1]}) ran although no restart request had been dequeued (last dequeued: {last_pop})")
            last_pop = None
    return v


def outcome(tr):
    return tuple((e[3], str(e[4])) for e in tr if e[0] == 'op_end') + tuple(e[1] for e in tr if e[0] == 'user_call')
