"""C18: every spawn entry point x every runtime feature"""
import time
import mir
import mirdump
from engine import Unsupported
from scen_sys import Sys
from prog_entry import EntryProgram, ENTRY_POINTS, STRATEGY, tail_ops, oracle_entry, outcome, BLOCKING_ENTRY_POINTS, block_on_flavor, blocking_ops

RUNTIMES = (('tokio_runtime', 'TokioSpawner', None), ('async_runtime', 'AsyncStdSpawner', 'async_runtime'), ('smol_runtime', 'SmolSpawner', 'smol_runtime'))


FAMILY = ('timers_stop', 'timers_mixed_drop', 'timers_restart', 'own_join_twice', 'own_detach', 'own_consume', 'own_join_after_last_drop', 'own_join_after_panic', 'own_two_join_futures', 'own_parked_join_future',
          'registry_sequential', 'registry_register', 'children_broadcast_stop')
FAMILY_THOROUGH = ('timers_interval_with_bounded', 'timers_fail_restart',
                   'registry_replace', 'registry_concurrent_lookup', 'children_kept_outside', 'children_two_under_m')


def extra_programs():
    """programs that exist only for the cross-runtime comparison"""
    import run_sys
    base = run_sys.mailbox_programs('thorough')[0]
    P = []

    def add(name, scripts, **kw):
        d = dict(base)
        d.update(name=name, cap=None, scripts=scripts, hp=0, pre=(), started_actions=(), strategy='RestartOnly', faults=0, max_clock=None,
                 K=2, max_steps=60, started=None, owning=False, registry=False, mt=False, children=(), broker=None)
        d.update(kw)
        P.append(d)
    # dropping an OwningAddr without detach while another strong address exists: the actor keeps running on every runtime?
    add('own_drop_keeps_running', {'c1': [('to_addr', 'o', 'a'), ('drop', 'o'), ('call', 'a', 'a1'), ('stop', 'a'), ('await', 'a')]}, owning=True)
    return P


def run(enums, repo, tier):
    results = []
    stats = {'paths': 0, 'steps': 0, 'solver_calls': 0, 'solver_s': 0.0, 'programs': [], 'functions': set(), 'modelled': {}, 'opaque': {},
             'samples': [], 'truncated': 0, 'bound': 0, 'distinct_traces': 0, 'unsupported': []}
    distinct = set()
    t0 = time.time()
    outcomes = {}
    for (feat, spawner, features) in RUNTIMES:
        text, info = mirdump.dump(repo, features=features)
        fs = mir.parse_mir(text)
        for ep in ENTRY_POINTS:
            sy = Sys(fs, enums, repo)
            sy.spawner = spawner
            if ep in STRATEGY:
                sy.strategy = STRATEGY[ep]
            scripts = {'c1': tail_ops(ep)}
            p = EntryProgram(sy, None, scripts, max_steps=60)
            p.max_preemptions = 2
            n = 0
            try:
                st = p.setup()
                for leaf in p.explore(st):
                    n += 1
                    tr = leaf.events[leaf.events.index(('setup_done',)) + 1:]
                    if leaf.status == 'truncated':
                        stats['truncated'] += 1
                        continue
                    for m in oracle_entry(tr, leaf.status, ep):
                        results.append(dict(prog=f"{feat}:{ep}", msg=m, trace=tr, choices=[]))
                    if leaf.status == 'quiescent':
                        outcomes.setdefault(ep, {}).setdefault(feat, set()).add(outcome(tr))
                    distinct.add(hash((feat, ep, tuple(tr))))
                    if len(stats['samples']) < 6 and n == 1 and ep in ('spawn', 'build_stream_spawn'):
                        stats['samples'].append({'runtime': feat, 'entry_point': ep, 'trace': [list(map(str, e)) for e in tr][:50]})
            except Unsupported as ex:
                stats['unsupported'].append(f"{feat}:{ep}: {ex}")
            e = sy.eng
            stats['paths'] += n
            stats['steps'] += e.stats.steps
            stats['solver_calls'] += e.stats.solver_calls
            stats['solver_s'] += e.stats.solver_time
            stats['functions'] |= e.stats.functions
            for k, v in e.stats.modelled.items():
                stats['modelled'][k] = stats['modelled'].get(k, 0) + v
            for k, v in e.stats.opaque.items():
                stats['opaque'][k] = stats['opaque'].get(k, 0) + v
            stats['programs'].append(dict(runtime=feat, entry_point=ep, script=[list(o) for o in scripts['c1']], schedules=n))
    # ---- programs driven by hannibal::runtime::block_on (#[hannibal::main]) whose spawning task waits for the actor
    # WITHOUT yielding: the kind of runtime block_on builds is taken from executing runtime::block_on itself
    stats['block_on'] = {}
    for (feat, spawner, features) in RUNTIMES:
        text, info = mirdump.dump(repo, features=features)
        fs = mir.parse_mir(text)
        try:
            flavor, how = block_on_flavor(Sys(fs, enums, repo), feat)
        except Unsupported as ex:
            stats['unsupported'].append(f"{feat}:block_on: {ex}")
            continue
        stats['block_on'][feat] = {'flavor': flavor, 'from': how}
        for ep in BLOCKING_ENTRY_POINTS:
            sy = Sys(fs, enums, repo)
            sy.spawner = spawner
            if ep in STRATEGY:
                sy.strategy = STRATEGY[ep]
            scripts = {'c1': blocking_ops(ep)}
            p = EntryProgram(sy, None, scripts, max_steps=60)
            p.max_preemptions = 2
            p.thread_flavor = flavor
            n = 0
            name = 'blocking_' + ep
            try:
                st = p.setup()
                for leaf in p.explore(st):
                    n += 1
                    tr = leaf.events[leaf.events.index(('setup_done',)) + 1:]
                    if leaf.status == 'truncated':
                        stats['truncated'] += 1
                        continue
                    for m in oracle_entry(tr, leaf.status, ep):
                        results.append(dict(prog=f"{feat}:{name}", msg=m, trace=tr, choices=[]))
                    if leaf.status == 'quiescent':
                        outcomes.setdefault(name, {}).setdefault(feat, set()).add(outcome(tr))
                    distinct.add(hash((feat, name, tuple(tr))))
            except Unsupported as ex:
                stats['unsupported'].append(f"{feat}:{name}: {ex}")
            e = sy.eng
            stats['paths'] += n
            stats['steps'] += e.stats.steps
            stats['solver_calls'] += e.stats.solver_calls
            stats['solver_s'] += e.stats.solver_time
            stats['functions'] |= e.stats.functions
            for k, v in e.stats.modelled.items():
                stats['modelled'][k] = stats['modelled'].get(k, 0) + v
            stats['programs'].append(dict(runtime=feat, program=name, entry_point=None, block_on_runtime=flavor, script=[list(o) for o in scripts['c1']], schedules=n))
    # ---- the timing-independent program family of the other properties, on every runtime: timers, owning handles,
    # registry, children (everything that goes through the runtime's spawn / sleep / join primitives)
    import run_sys
    fam = [sp for sp in run_sys.mailbox_programs('thorough' if tier == 'thorough' else 'quick') if sp['name'] in FAMILY or (tier == 'thorough' and sp['name'] in FAMILY_THOROUGH)]
    fam += extra_programs()
    for (feat, spawner, features) in RUNTIMES:
        text, info = mirdump.dump(repo, features=features)
        fs = mir.parse_mir(text)
        for spec in fam:
            name = spec['name']
            n = 0
            try:
                sy, p = run_sys.make_program(fs, enums, repo, spec, spawner=spawner)
                st = p.setup()
                for leaf in p.explore(st):
                    n += 1
                    tr = leaf.events[leaf.events.index(('setup_done',)) + 1:]
                    if leaf.status == 'truncated':
                        stats['truncated'] += 1
                        continue
                    if leaf.status == 'bound':
                        stats['bound'] += 1
                    if leaf.status == 'panicked':
                        results.append(dict(prog=f"{feat}:{name}", msg=f"{name}: a client task died by a panic: {[e for e in tr if e[0] == 'panic'][-1:]}", trace=tr, choices=[]))
                    if leaf.status == 'quiescent':
                        outcomes.setdefault(name, {}).setdefault(feat, set()).add(outcome(tr))
                    if any(e[0] == 'task_cancelled' and 'without detach' in str(e[2]) for e in tr):
                        results.append(dict(prog=f"{feat}:{name}", msg=f"{name}: an actor task was cancelled ({[e for e in tr if e[0] == 'task_cancelled'][0][2]})", trace=tr, choices=[]))
                    distinct.add(hash((feat, name, tuple(tr))))
            except Unsupported as ex:
                stats['unsupported'].append(f"{feat}:{name}: {ex}")
                continue
            e = sy.eng
            stats['paths'] += n
            stats['steps'] += e.stats.steps
            stats['solver_calls'] += e.stats.solver_calls
            stats['solver_s'] += e.stats.solver_time
            stats['functions'] |= e.stats.functions
            for k, v in e.stats.modelled.items():
                stats['modelled'][k] = stats['modelled'].get(k, 0) + v
            for k, v in e.stats.opaque.items():
                stats['opaque'][k] = stats['opaque'].get(k, 0) + v
            stats['programs'].append(dict(runtime=feat, program=name, scripts={k: [list(o) for o in v] for k, v in spec['scripts'].items()}, started_actions=[list(a) for a in spec['started_actions']], schedules=n))
    # same observable outcome on every runtime (the runtime that deviates from the other two is the one reported;
    # tokio is the reference when all three differ)
    for ep, per in outcomes.items():
        groups = {}
        for feat, oc in per.items():
            groups.setdefault(frozenset(oc), []).append(feat)
        ref = next((fs_ for fs_ in groups.values() if len(fs_) >= 2), None) or [f for f in per if f == 'tokio_runtime'] or list(per)[:1]
        base = per[ref[0]]
        for feat, oc in per.items():
            if oc != base:
                results.append(dict(prog=f"{feat}:{ep}", msg=f"{ep}: the observable outcomes on {feat} differ from {' and '.join(ref)}",
                                    trace=[('outcomes', str(sorted(oc, key=str))[:400], str(sorted(base, key=str))[:400])], choices=[]))
    # ---- native side: the same entry points and scenarios on the real runtimes (hv-entry, built per runtime feature)
    import native_entry
    stats['traces_validated_against_impl'] = 0
    stats['native_mismatches'] = []
    stats['native_confirmations'] = {}
    for (feat, spawner, features) in RUNTIMES:
        nat = native_entry.run(feat)
        stats.setdefault('native_runs', {})[feat] = {k: v['line'] for k, v in nat.items()}
        explored = {p.get('entry_point') or p.get('program') for p in stats['programs'] if p['runtime'] == feat}
        for scen, nv in nat.items():
            if scen not in explored:
                continue
            mine = [r for r in results if r['prog'] == f"{feat}:{scen}"]
            if bool(mine) == (not nv['good']):
                stats['traces_validated_against_impl'] += 1
                for r in mine:
                    r['native_confirmed'] = True
                    r['native_note'] = nv['line']
                if mine:
                    stats['native_confirmations'][f"C18:{feat}:{scen}"] = True
            elif mine:
                for r in mine:
                    r['native_confirmed'] = False
                    r['native_note'] = 'native run is fine: ' + nv['line']
                stats['native_confirmations'][f"C18:{feat}:{scen}"] = False
            else:
                stats['native_mismatches'].append(f"{feat}:{scen}: symbolic exploration finds nothing, native run: {nv['line']}")
    for r in results:
        r['trace'] = [tuple(map(str, e)) for e in r['trace']][:300]
    stats['wall_s'] = time.time() - t0
    stats['distinct_traces'] = len(distinct)
    stats['functions'] = sorted(stats['functions'])
    return results, stats


if __name__ == '__main__':
    import sys
    sys.path.insert(0, '/verif')
    from check import hannibal_enums
    res, stats = run(hannibal_enums(), mirdump.REPO, 'quick')
    seen = set()
    for x in res:
        if (x['prog'], x['msg']) not in seen:
            seen.add((x['prog'], x['msg']))
            print('VIOL', x['prog'], x['msg'])
    print({k: v for k, v in stats.items() if k not in ('samples', 'functions', 'modelled', 'programs')})
