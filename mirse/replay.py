"""Native replay: run a program + schedule found symbolically on the real crates (hv-replay binary) and compare."""
import os
import subprocess

ROOT = os.path.dirname(os.path.dirname(os.path.abspath(__file__)))
BIN_DIR = os.path.join(ROOT, 'replay')
CACHE = os.path.join(ROOT, '.cache')


def build():
    """(re)build the replayer against the current tree of the repository under check (/repo, or $VERIF_REPO for
    scratch copies); returns path of the binary or raises"""
    repo = os.environ.get('VERIF_REPO', '/repo')
    env = dict(os.environ)
    crate = BIN_DIR
    tgt = os.path.join(CACHE, 'replay-target')
    if repo != '/repo':
        import hashlib, shutil
        tag = hashlib.sha1(repo.encode()).hexdigest()[:8]
        crate = os.path.join(CACHE, f'replay-crate-{tag}')
        shutil.rmtree(crate, ignore_errors=True)
        shutil.copytree(BIN_DIR, crate, ignore=shutil.ignore_patterns('target'))
        t = open(os.path.join(crate, 'Cargo.toml')).read().replace('path = "/repo"', f'path = "{repo}"')
        open(os.path.join(crate, 'Cargo.toml'), 'w').write(t)
        tgt = os.path.join(CACHE, f'replay-target-{tag}')
    env.update({'CARGO_NET_OFFLINE': 'true', 'CARGO_TARGET_DIR': tgt})
    p = subprocess.run(['cargo', 'build', '--offline', '--release', '--manifest-path', os.path.join(crate, 'Cargo.toml')],
                       env=env, capture_output=True, text=True)
    if p.returncode != 0:
        raise RuntimeError('replayer does not build against the current tree:\n' + p.stderr[-2000:])
    return os.path.join(tgt, 'release', 'hv-replay')


def observable(tr):
    """project a symbolic trace onto what the native run can observe"""
    out = []
    for e in tr:
        k = e[0]
        if k == 'sched':
            out.append(('sched', e[1]))
        elif k in ('op_begin',):
            out.append(('op_begin', e[1], int(e[2]), e[3]))
        elif k == 'op_end':
            out.append(('op_end', e[1], int(e[2]), e[3], str(e[4])))
        elif k == 'user_call':
            out.append(('user_call', e[1], str(e[4]) if e[1] == 'handle' else ''))
        elif k == 'user_done':
            out.append(('user_done', e[1], str(e[4]) if e[1] == 'handle' else ''))
        elif k == 'script_result':
            out.append(('script_result', e[1], str(e[2])))
        elif k == 'task_done' and e[1] == 'loop':
            out.append(('task_done', 'loop', 'Ok' if str(e[2]).startswith('Ok') else 'Err'))
        elif k == 'client_done':
            out.append(('client_done', e[1]))
    return out


def to_input(cap, scripts, tr, strategy='RestartOnly', pre=()):
    lines = [f"cap {'unbounded' if cap in (None, 'None') else cap}", f"strategy {strategy}", "pending 0"]
    # handler pending decisions: user_pending events carry (kind, n)
    pend = {}
    for e in tr:
        if e[0] == 'user_pending' and e[1] == 'handle':
            pend[int(e[2])] = pend.get(int(e[2]), 0) + 1
    for n, k in sorted(pend.items()):
        lines.append(f"pendingfor {n} {k}")
    for op in pre:
        lines.append('pre ' + ' '.join(str(x) for x in op))
    for c, ops in scripts.items():
        lines.append(f"script {c} " + ' ; '.join(' '.join(str(x) for x in op) for op in ops))
    lines.append('sched ' + ' '.join(e[1] for e in tr if e[0] == 'sched'))
    return '\n'.join(lines) + '\n'


def parse_output(text):
    """native event lines -> tuples in the symbolic vocabulary (for the oracles) """
    tr = []
    n_handle = 0
    started = False
    for line in text.splitlines():
        p = line.split(' ')
        k = p[0]
        if k == 'setup_done':
            started = True
            continue
        if not started:
            continue
        if k == 'sched':
            tr.append(('sched', p[1]))
        elif k == 'op_begin':
            tr.append(('op_begin', p[1], int(p[2]), p[3], p[4] if len(p) > 4 else ''))
        elif k == 'op_end':
            tr.append(('op_end', p[1], int(p[2]), p[3], ' '.join(p[4:])))
        elif k == 'user_call':
            if p[1] == 'handle':
                n_handle += 1
                tr.append(('user_call', 'handle', n_handle, '?', p[2]))
            else:
                tr.append(('user_call', p[1], 0, '?', ''))
        elif k == 'user_done':
            if p[1] == 'handle':
                tr.append(('user_done', 'handle', n_handle, '?', p[2]))
            else:
                tr.append(('user_done', p[1], 0, '?', p[2] if len(p) > 2 else ''))
        elif k == 'script_result':
            tr.append(('script_result', p[1], ' '.join(p[2:])))
        elif k == 'task_done':
            tr.append(('task_done', p[1], ' '.join(p[2:])))
        elif k == 'client_done':
            tr.append(('client_done', p[1]))
        elif k == 'replay_error':
            tr.append(('replay_error', ' '.join(p[1:])))
    return tr


def run_native(binary, cap, scripts, tr, strategy='RestartOnly', timeout=20, pre=()):
    inp = to_input(cap, scripts, tr, strategy, pre)
    p = subprocess.run([binary], input=inp, capture_output=True, text=True, timeout=timeout)
    if p.returncode != 0:
        return None, f"replayer exited {p.returncode}: {p.stderr[:400]} ... {p.stderr[-150:]}"
    return parse_output(p.stdout), None


def same_observable(sym_tr, nat_tr):
    a, b = observable(sym_tr), observable(nat_tr)
    if a == b:
        return True, None
    for i, (x, y) in enumerate(zip(a, b)):
        if x != y:
            return False, f"first difference at event {i}: symbolic {x} vs native {y}"
    return False, f"length differs: symbolic {len(a)} vs native {len(b)} (next: {(a + b)[min(len(a), len(b))]})"
