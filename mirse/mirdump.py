"""Regenerate the MIR dump of /repo's current working tree (nightly rustc, --emit=mir)."""
import glob
import hashlib
import os
import subprocess
import time

REPO = os.environ.get('VERIF_REPO', '/repo')
CACHE = os.path.join(os.path.dirname(os.path.dirname(os.path.abspath(__file__))), '.cache')


def tree_hash(repo=REPO):
    h = hashlib.sha256()
    files = []
    for root in ('src', 'hannibal-derive/src'):
        for dp, dn, fn in os.walk(os.path.join(repo, root)):
            for f in fn:
                files.append(os.path.join(dp, f))
    files += [os.path.join(repo, 'Cargo.toml'), os.path.join(repo, 'Cargo.lock'), os.path.join(repo, 'hannibal-derive/Cargo.toml')]
    for f in sorted(files):
        if os.path.exists(f):
            h.update(f.encode())
            h.update(open(f, 'rb').read())
    return h.hexdigest()[:20]


def dump(repo=REPO, features=None):
    """returns (mir_text, info).  The dump is produced by `cargo +nightly rustc --lib -- --emit=mir` in a private
    target dir; it is keyed by a hash of the source tree so that an unchanged tree is not recompiled, and a changed
    tree always is."""
    os.makedirs(CACHE, exist_ok=True)
    key = tree_hash(repo) + ('-' + features.replace(',', '_') if features else '')
    out = os.path.join(CACHE, f"mir-{key}.mir")
    info = {'tree_hash': key, 'cached': os.path.exists(out)}
    if not os.path.exists(out):
        import hashlib as _h
        rtag = '' if repo == '/repo' else '-' + _h.sha1(repo.encode()).hexdigest()[:8]
        tgt = os.path.join(CACHE, 'mir-target' + rtag + ('-' + features.replace(',', '_') if features else ''))
        env = dict(os.environ)
        env.update({'CARGO_TARGET_DIR': tgt, 'CARGO_NET_OFFLINE': 'true', 'RUSTFLAGS': '', 'CARGO_TERM_COLOR': 'never'})
        env.pop('RUSTC_WRAPPER', None)
        t = time.time()
        for f in glob.glob(os.path.join(tgt, 'debug/deps/hannibal-*.mir')):
            os.remove(f)
        cmd = ['cargo', '+nightly', 'rustc', '--offline', '--lib', '--manifest-path', os.path.join(repo, 'Cargo.toml')]
        if features:
            cmd += ['--no-default-features', '--features', features]
        cmd += ['--', '--emit=mir', '-C', 'debug-assertions=off']
        p = subprocess.run(cmd, env=env, capture_output=True, text=True)
        cands = glob.glob(os.path.join(tgt, 'debug/deps/hannibal-*.mir'))
        if p.returncode != 0 or not cands:
            # the fingerprint may be fresh while the artifact was removed: force a rebuild of the lib only
            for f in glob.glob(os.path.join(tgt, 'debug/.fingerprint/hannibal-*')):
                if 'derive' not in f:
                    subprocess.run(['rm', '-rf', f])
            p = subprocess.run(cmd, env=env, capture_output=True, text=True)
            cands = glob.glob(os.path.join(tgt, 'debug/deps/hannibal-*.mir'))
        if p.returncode != 0 or not cands:
            raise RuntimeError("MIR dump failed:\n" + p.stderr[-3000:])
        newest = max(cands, key=os.path.getmtime)
        os.replace(newest, out)
        info['build_s'] = round(time.time() - t, 1)
    return open(out).read(), info


if __name__ == '__main__':
    t, i = dump()
    print(len(t.splitlines()), 'lines', i)
