"""Service-registry programs (C08): clients call from_registry / setup / register / replace / unregister /
try_from_registry / already_running and stop instances, concurrently; service.rs runs from MIR, the global REGISTRY is one
modelled RwLock<HashMap>.  Instances are identified by their ContextID."""
from engine import State, VSym, VAgg, VScalar, VRef, VConst, UNIT, TOMB, Unsupported, _describe
from prog_mailbox import MailboxProgram, _ops
from scen_sys import Msg
import sysmodels as S


class RegistryProgram(MailboxProgram):
    def setup(self):
        st = State()
        for i, op in enumerate(self.pre):
            for s2, fut in self.start_op(st, 'pre', i, op):
                if fut is not None and s2 is st:
                    raise Unsupported("pre-operations must be synchronous")
        for name, script in self.scripts.items():
            self.add_task(st, name, UNIT, kind='client', script=script)
        st.events.append(('setup_done',))
        return st

    def ident(self, st, addr):
        """instance identity of an Addr value: its context id"""
        if isinstance(addr, VRef):
            addr = st.objs[addr.root[1]] if addr.root[0] == 'obj' and not addr.path else self.eng.get_path(st, self.eng.root_get(st, addr.root), addr.path)
        cid = addr.fields[('f', 0)]
        v = cid.fields[('f', 0)] if isinstance(cid, VAgg) else cid
        return f"inst{_describe(v)}"

    def start_op(self, st, name, pc, op):
        k = op[0]
        e = self.eng
        if k == 'spawn':
            # a fresh instance outside the registry: Spawnable::spawn
            n = st.meta.get('instances', 0) + 1
            st.meta['instances'] = n
            st.meta['next_task_name'] = f"loop{n}"
            s2, a = self.call(st, '<Self as Spawnable<S>>::spawn', [VSym(f"actor{n}", 'A')])
            self.put(s2, op[1], a)
            s2.event('op_end', name, pc, k, self.ident(s2, a))
            yield s2, None
        elif k in ('from_registry', 'setup'):
            n = st.meta.get('instances', 0) + 1
            st.meta['instances'] = n
            st.meta['next_task_name'] = f"loop{n}"      # used only if this call spawns
            fn = 'Service::from_registry' if k == 'from_registry' else 'Service::setup'
            s2, fut = self.call(st, fn, [])
            yield s2, fut
        elif k == 'register':
            a = self.take(st, op[1])
            s2, fut = self.call(st, 'service::<impl Addr<A>>::register', [a])
            yield s2, fut
        elif k == 'replace':
            a = self.take(st, op[1])
            s2, fut = self.call(st, 'service::<impl Addr<A>>::replace', [a])
            yield s2, fut
        elif k == 'unregister':
            s2, fut = self.call(st, 'service::<impl Addr<A>>::unregister', [])
            yield s2, fut
        elif k == 'already_running':
            s2, fut = self.call(st, 'Service::already_running', [])
            yield s2, fut
        elif k == 'try_from_registry':
            s2, r = self.call(st, 'Service::try_from_registry', [])
            d = e.concrete_int(s2, e.discriminant_of(s2, r))
            if d == 1:
                a = r.fields[('v', 'Some', 0)]
                s2.event('op_end', name, pc, k, 'Some(' + self.ident(s2, a) + ')')
                if len(op) > 1:
                    self.put(s2, op[1], a)
                else:
                    self.drop_now(s2, a, None, 'discarded')
            else:
                s2.event('op_end', name, pc, k, 'None')
            yield s2, None
        else:
            yield from super().start_op(st, name, pc, op)

    def op_result(self, st, name, pc, op, res):
        """keep returned addresses as handles, describe results by instance identity"""
        e = self.eng
        k = op[0]
        desc = None
        if k == 'from_registry' and isinstance(res, VAgg) and res.name == 'Addr':
            desc = self.ident(st, res)
            if len(op) > 1:
                self.put(st, op[1], res)
                res = None
        elif k == 'register' and isinstance(res, VAgg) and res.name == 'Result':
            if res.vname == 'Ok':
                tup = res.fields[('v', 'Ok', 0)]
                me, old = tup.fields[('f', 0)], tup.fields[('f', 1)]
                od = e.concrete_int(st, e.discriminant_of(st, old))
                desc = f"Ok({self.ident(st, me)}, replaced={'None' if od == 0 else self.ident(st, old.fields[('v', 'Some', 0)])})"
                if len(op) > 2:
                    self.put(st, op[2], me)
                    res = VAgg(name='tuple', fields={('f', 1): old})
            else:
                desc = 'Err(' + self.sys.describe_result(st, res.fields[('v', 'Err', 0)]) + ')'
        elif k in ('replace', 'unregister') and isinstance(res, VAgg) and res.name == 'Option':
            d = e.concrete_int(st, e.discriminant_of(st, res))
            desc = 'None' if d == 0 else 'Some(' + self.ident(st, res.fields[('v', 'Some', 0)]) + ')'
            if d == 1 and len(op) > (2 if k == 'replace' else 1):
                self.put(st, op[2 if k == 'replace' else 1], res.fields[('v', 'Some', 0)])
                res = None
        elif k == 'already_running' and isinstance(res, VAgg) and res.name == 'Option':
            d = e.concrete_int(st, e.discriminant_of(st, res))
            desc = 'None' if d == 0 else f"Some({bool(e.concrete_int(st, res.fields[('v', 'Some', 0)]))})"
        if desc is not None:
            # rewrite the generic op_end event with the identity-based description
            for i in range(len(st.events) - 1, -1, -1):
                ev = st.events[i]
                if ev[0] == 'op_end' and ev[1] == name and ev[2] == pc:
                    st.events[i] = ('op_end', name, pc, k, desc)
                    break
        if res is not None:
            self.drop_now(st, res, None, 'operation result discarded')


def oracle_registry(tr, status, scripts):
    """C08 against a sequential registry model.  Registry operations hold the registry lock for their whole
    check-then-act, so the order of their lock acquisitions is their linearization; liveness of an instance at that
    point = its event loop has not terminated."""
    v = []
    # termination index per instance (loopN <-> inst id by spawn order is not needed: identify by 'task_done loopN' and
    # the ident recorded when the instance first appeared)
    inst_of_task = {}
    # map loop task -> instance id: the k-th spawned loop belongs to the k-th distinct instance id seen
    seen = []
    for e in tr:
        if e[0] == 'op_end':
            for tok in str(e[4]).replace('(', ' ').replace(')', ' ').replace(',', ' ').replace('=', ' ').split():
                if tok.startswith('inst') and tok not in seen:
                    seen.append(tok)
    spawned = [e[1] for e in tr if e[0] == 'spawn' and str(e[1]).startswith('loop')]
    # instance ids are context ids handed out in spawn order
    order = sorted(seen, key=lambda s: int(''.join(ch for ch in s if ch.isdigit()) or 0))
    for tname, inst in zip(spawned, order):
        inst_of_task[tname] = inst
    dead_at = {}
    for i, e in enumerate(tr):
        if e[0] in ('task_done', 'task_killed', 'task_panicked') and e[1] in inst_of_task:
            dead_at.setdefault(inst_of_task[e[1]], i)

    def alive(inst, idx):
        return inst not in dead_at or dead_at[inst] > idx
    ops = [o for o in _ops(tr) if o['kind'] in ('from_registry', 'setup', 'register', 'replace', 'unregister', 'try_from_registry', 'already_running')]
    # linearization point: first lock_acquired inside the op's interval by that client; fall back to op begin
    owner = None
    lock_pts = {}
    for i, e in enumerate(tr):
        if e[0] == 'sched':
            owner = e[1]
        if e[0] == 'lock_acquired':
            for o in ops:
                if o['client'] == owner and o['begin'] <= i and (o['end'] is None or i <= o['end']) and id(o) not in lock_pts:
                    lock_pts[id(o)] = i
                    break
    ops.sort(key=lambda o: lock_pts.get(id(o), o['begin']))
    registered = None
    fresh_due = False
    for o in ops:
        if o['end'] is None:
            continue
        pt = lock_pts.get(id(o), o['begin'])
        res = str(o['result'])
        k = o['kind']
        live = registered is not None and alive(registered, pt)
        if k in ('from_registry', 'setup'):
            if k == 'from_registry':
                if live and res != registered:
                    v.append(f"from_registry returned {res} although the live instance {registered} was registered")
                if not live and res == registered:
                    v.append(f"from_registry returned the terminated instance {res}")
                registered = res if res.startswith('inst') else registered
            else:
                if not live:
                    registered = 'inst?'       # setup must have spawned a fresh instance; identified by the next lookup
                    fresh_due = True
        elif k == 'register':
            arg = scripts[o['client']][o['pc']]
            if live:
                if not res.startswith('Err'):
                    v.append(f"register succeeded ({res}) although the live instance {registered} is registered")
            else:
                if not res.startswith('Ok'):
                    v.append(f"register failed ({res}) although no live instance is registered (registered: {registered})")
                else:
                    exp = 'None' if registered is None else registered
                    if f"replaced={exp}" not in res and registered != 'inst?':
                        v.append(f"register returned {res}, expected the replaced entry {exp}")
                    registered = res[3:].split(',')[0]
        elif k == 'replace':
            exp = 'None' if registered is None else f"Some({registered})"
            if res != exp and registered != 'inst?':
                v.append(f"replace returned {res}, expected the previous entry {exp}")
            registered = 'arg:' + str(o['pc'])
            # identity of the argument: recorded by the preceding spawn op_end of that handle
            registered = _handle_ident(tr, scripts, o) or registered
        elif k == 'unregister':
            exp = 'None' if registered is None else f"Some({registered})"
            if res != exp and registered != 'inst?':
                v.append(f"unregister returned {res}, expected the previous entry {exp}")
            registered = None
        elif k == 'try_from_registry':
            if registered == 'inst?':
                if not res.startswith('Some'):
                    v.append(f"try_from_registry returned {res} after setup() had to register a fresh instance")
                else:
                    inst = res[5:-1]
                    if not alive(inst, o['begin']):
                        v.append(f"try_from_registry returned the terminated instance {inst} after setup()")
                    registered = inst
                continue
            if res.startswith('Some'):
                inst = res[5:-1]
                if inst != registered:
                    v.append(f"try_from_registry returned {inst} which is not the registered instance ({registered})")
                elif not alive(inst, o['begin']):
                    v.append(f"try_from_registry returned the terminated instance {inst}")
        elif k == 'already_running':
            if registered == 'inst?' and res != 'Some(True)':
                v.append(f"already_running returned {res} after setup() had to register a fresh instance")
            exp = 'None' if registered is None else f"Some({live})"
            if res != exp and registered != 'inst?':
                v.append(f"already_running returned {res}, expected {exp} (registered: {registered}, alive: {live})")
    return v


def _handle_ident(tr, scripts, o):
    h = scripts[o['client']][o['pc']][1]
    for e in tr[:o['begin']][::-1]:
        if e[0] == 'op_end' and e[3] == 'spawn' and scripts.get(e[1]) and scripts[e[1]][e[2]][1] == h:
            return e[4]
    return None
