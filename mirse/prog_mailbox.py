"""Closed programs over one actor: clients submit through every handle kind, stop/drop/convert handles, while the actor
loop runs; all interleavings of task polls are explored.  Oracles for C01, C02, C04, C05, C12, C14, C15 are evaluated on
the event trace of every explored schedule.
"""
import re
from engine import (State, VSym, VAgg, VScalar, VRef, VConst, UNIT, TOMB, Unsupported, _describe)
from scen_sys import Sys, Program, Msg
from sysmodels import is_h, mget, some, NONE
import sysmodels as S


class MissingHandle(Unsupported):
    """a script step needs a handle that an earlier step failed to produce (e.g. an upgrade that returned None): the
    client gives up there - what the earlier step returned is what the oracles judge"""


class MailboxProgram(Program):
    def __init__(self, sysm, cap, scripts, max_steps=60, handler_pending=0, strategy='RestartOnly', timeout=False, pre=()):
        super().__init__(sysm, max_steps=max_steps)
        self.cap = cap                    # None = unbounded, int = bounded(n), 'sym' = bounded(n) with symbolic n
        self.cap_max = 3
        self.scripts = scripts            # {client: [ops]}
        self.handler_pending = handler_pending
        self.sys.handler_pending = handler_pending
        self.pre = tuple(pre)

    # handles live in st.meta[('h', name)] = oid of an object holding the handle value
    def H(self, st, name):
        S.touch(st, ('h', name), True)
        oid = st.meta.get(('h', name))
        if oid is None or st.objs.get(oid) is TOMB:
            raise MissingHandle(f"script uses missing handle {name}")
        return oid

    def href(self, st, name, mut=False):
        return VRef(('obj', self.H(st, name)), (), mut)

    def put(self, st, name, val):
        S.touch(st, ('h', name), True)
        st.meta[('h', name)] = st.alloc(val)

    def take(self, st, name):
        oid = self.H(st, name)
        v = st.objs[oid]
        st.objs[oid] = TOMB
        st.meta[('h', name)] = None
        return v

    def setup(self):
        if getattr(self, 'owning', False):
            return self.setup_owning()
        return self.setup_plain()

    def setup_owning(self):
        """spawn through the real entry point `Spawnable::spawn_owning` (TokioSpawner::spawn_actor from MIR, tokio::spawn
        modelled): the handle `o` is an OwningAddr"""
        st = State()
        st.meta['next_task_name'] = 'loop'
        st, o = self.call(st, '<Self as Spawnable<S>>::spawn_owning', [VSym('actor0', 'A')])
        self.chan_oid = next(ev[1] for ev in st.events if ev[0] == 'chan_new')
        self.put(st, 'o', o)
        for i, op in enumerate(self.pre):
            for s2, fut in self.start_op(st, 'pre', i, op):
                if fut is not None or s2 is not st:
                    raise Unsupported("pre-operations must be synchronous")
        st.events[:] = [e for e in st.events if not (e[0] == 'op_end' and e[1] == 'pre')]
        for name, script in self.scripts.items():
            self.add_task(st, name, UNIT, kind='client', script=script)
        st.events.append(('setup_done',))
        return st

    def setup_plain(self):
        st = State()
        if self.cap is None:
            st, ch = self.call(st, 'Channel::<A>::unbounded', [])
        elif self.cap == 'sym':
            # symbolic capacity n in [0, cap_max]: one exploration covers every n, z3 decides each comparison
            import z3
            self.n = z3.Int('capacity_n')
            st.pc.append(z3.And(self.n >= 0, self.n <= self.cap_max))
            st, ch = self.call(st, 'Channel::<A>::bounded', [VScalar(self.n)])
        else:
            st, ch = self.call(st, 'Channel::<A>::bounded', [VScalar(self.cap)])
        st, env = self.call(st, 'Environment::<A, R>::from_channel', [ch])
        if getattr(self, 'timeout_cfg', None):
            # EnvironmentConfig { timeout: Some(ticks), fail_on_timeout } through the real with_config
            ticks, fail = self.timeout_cfg
            cfg = VAgg(name='EnvironmentConfig', fields={('f', 0): some(VAgg(name='Duration', extra={'ticks': ticks})) if ticks is not None else NONE, ('f', 1): VScalar(bool(fail))},
                       extra={'fieldnames': ('timeout', 'fail_on_timeout')})
            st, env = self.call(st, 'Environment::<A, R>::with_config', [env, cfg])
        if getattr(self, 'stream', False):
            # a stream-attached actor: the stream is a scripted queue fed by client operations (feed / end_stream)
            st.meta['ustream'] = S.mobj(st, 'ustream', items=(), closed=False, ended=False, repeat=(self.stream == 'repeat'), count=0)
            st, la = self.call(st, 'Environment::<A, R>::create_loop_on_stream::<S>', [env, VSym('actor0', 'A'), VSym('stream', 'S')])
        else:
            st, la = self.call(st, 'Environment::<A, R>::create_loop', [env, VSym('actor0', 'A')])
        loop, addr = la.fields[('f', 0)], la.fields[('f', 1)]
        self.chan_oid = next(ev[1] for ev in st.events if ev[0] == 'chan_new')
        self.add_task(st, 'loop', loop)
        self.put(st, 'addr', addr)
        for i, op in enumerate(self.pre):
            # handles prepared before the tasks start (synchronous operations only)
            for s2, fut in self.start_op(st, 'pre', i, op):
                if fut is not None or s2 is not st:
                    raise Unsupported("pre-operations must be synchronous")
        st.events[:] = [e for e in st.events if not (e[0] == 'op_end' and e[1] == 'pre')]
        for name, script in self.scripts.items():
            self.add_task(st, name, UNIT, kind='client', script=script)
        st.events.append(('setup_done',))
        return st

    # ------------------------------------------------------------------ operations
    def start_op(self, st, name, pc, op):
        k = op[0]
        if k in ('call', 'send'):
            fn = 'Addr::<A>::call::<M>' if k == 'call' else 'Addr::<A>::send::<M>'
            s2, fut = self.call(st, fn, [self.href(st, op[1]), Msg.new(op[2])])
            yield s2, fut
        elif k == 'ping':
            s2, fut = self.call(st, 'Addr::<A>::ping', [self.href(st, op[1])])
            yield s2, fut
        elif k == 'sleep':
            # the client waits for the virtual clock (Spawner::sleep of the runtime): used to create idle gaps
            leaf = self.sys.m_tokio_sleep(self.eng, st, None, None, [VAgg(name='Duration', extra={'ticks': op[1]})])
            yield st, leaf
        elif k in ('feed', 'end_stream'):
            us = st.meta['ustream']
            q = S.mget(st, us)
            if k == 'feed':
                S.mset(st, us, items=q['items'] + (op[1],))
                st.event('stream_feed', op[1])
            else:
                S.mset(st, us, closed=True)
                st.event('stream_closed')
            st.event('op_end', name, pc, k, 'Ok')
            yield st, None
        elif k in ('stop', 'restart'):
            # (may fork when the capacity is symbolic: the forced submission compares the queue length with n)
            for s2, r in self.call(st, f'Addr::<A>::{k}', [self.href(st, op[1], True)], allow_fork=True):
                s2.event('op_end', name, pc, k, self.sys.describe_result(s2, r))
                yield s2, None
        elif k == 'halt':
            a = self.take(st, op[1])
            s2, fut = self.call(st, 'Addr::<A>::halt', [a])
            yield s2, fut
        elif k == 'await':
            # await a clone of the address
            s2, c = self.call(st, '<Addr<A> as Clone>::clone', [self.href(st, op[1])])
            yield s2, c
        elif k == 'await_mut':
            # (&mut addr).await: the handle stays with the client and is used again afterwards
            yield st, self.href(st, op[1], True)
        elif k == 'clone':
            s2, c = self.call(st, '<Addr<A> as Clone>::clone', [self.href(st, op[1])])
            self.put(s2, op[2], c)
            s2.event('op_end', name, pc, 'clone', op[2])
            yield s2, None
        elif k == 'drop':
            v = self.take(st, op[1])
            self.drop_now(st, v, None, f"{name} drops {op[1]}")
            st.event('op_end', name, pc, 'drop', op[1])
            yield st, None
        elif k in ('mk_sender', 'mk_caller', 'mk_weak_sender', 'mk_weak_caller', 'downgrade'):
            fn = {'mk_sender': 'Addr::<A>::sender::<M>', 'mk_caller': 'Addr::<A>::caller::<M>',
                  'mk_weak_sender': 'Addr::<A>::weak_sender::<M>', 'mk_weak_caller': 'Addr::<A>::weak_caller::<M>',
                  'downgrade': 'Addr::<A>::downgrade'}[k]
            s2, h = self.call(st, fn, [self.href(st, op[1])])
            self.put(s2, op[2], h)
            s2.event('op_end', name, pc, k, op[2])
            yield s2, None
        elif k == 'sender_send':
            s2, fut = self.call(st, 'sender::Sender::<M>::send', [self.href(st, op[1]), Msg.new(op[2])])
            yield s2, fut
        elif k == 'prepare_send':
            # `Sender::send` is a plain fn returning a boxed future: create it now, await it later (`prepared_send`)
            s2, fut = self.call(st, 'sender::Sender::<M>::send', [self.href(st, op[1]), Msg.new(op[2])])
            self.put(s2, op[3], fut)
            s2.event('op_end', name, pc, k, op[3])
            yield s2, None
        elif k == 'prepared_send':
            yield st, self.take(st, op[1])
        elif k == 'caller_call':
            s2, fut = self.call(st, 'Caller::<M>::call', [self.href(st, op[1]), Msg.new(op[2])])
            yield s2, fut
        elif k == 'weak_send':
            s2, fut = self.call(st, 'weak_sender::WeakSender::<M>::try_send', [self.href(st, op[1]), Msg.new(op[2])])
            yield s2, fut
        elif k == 'weak_call':
            s2, fut = self.call(st, 'weak_caller::WeakCaller::<M>::try_call', [self.href(st, op[1]), Msg.new(op[2])])
            yield s2, fut
        elif k in ('upgrade', 'upgrade_sender', 'upgrade_caller'):
            fn = {'upgrade': 'WeakAddr::<A>::upgrade', 'upgrade_sender': 'weak_sender::WeakSender::<M>::upgrade',
                  'upgrade_caller': 'weak_caller::WeakCaller::<M>::upgrade'}[k]
            s2, r = self.call(st, fn, [self.href(st, op[1])])
            d = self.eng.concrete_int(s2, self.eng.discriminant_of(s2, r))
            s2.event('op_end', name, pc, k, 'Some' if d == 1 else 'None')
            if d == 1:
                v = r.fields[('v', 'Some', 0)]
                if len(op) > 2:
                    self.put(s2, op[2], v)
                else:
                    self.drop_now(s2, v, None, 'upgraded handle dropped')
            yield s2, None
        elif k in ('stopped', 'running'):
            fn = 'Addr::<A>::stopped' if k == 'stopped' else 'Addr::<A>::running'
            s2, r = self.call(st, fn, [self.href(st, op[1])])
            s2.event('op_end', name, pc, k, str(self.eng.concrete_int(s2, r)))
            yield s2, None
        elif k == 'weak_stopped':
            s2, r = self.call(st, 'WeakAddr::<A>::stopped', [self.href(st, op[1])])
            s2.event('op_end', name, pc, k, str(self.eng.concrete_int(s2, r)))
            yield s2, None
        elif k == 'try_stop':
            s2, r = self.call(st, 'WeakAddr::<A>::try_stop', [self.href(st, op[1], True)])
            s2.event('op_end', name, pc, k, self.sys.describe_result(s2, r))
            yield s2, None
        elif k == 'mk_join':
            s2, fut = self.call(st, 'OwningAddr::<A>::join', [self.href(st, op[1], True)])
            self.put(s2, op[2], fut)
            s2.event('op_end', name, pc, k, op[2])
            yield s2, None
        elif k == 'await_fut':
            fut = self.take(st, op[1])
            yield st, fut
        elif k == 'poll_once':
            # poll a stored future once with a no-op waker and keep it (e.g. `timeout(d, &mut fut)` that elapsed)
            oid = self.H(st, op[1])
            for l, pv in self.poll_future_obj(st, oid):
                if l.status != 'running' or pv == 'YIELD':
                    raise Unsupported("poll_once interrupted")
                d = self.eng.discriminant_of(l, pv).v
                if d == 0:
                    res = pv.fields.get(('v', 'Ready', 0))
                    l.event('op_end', name, pc, k, 'Ready(' + self.sys.describe_result(l, res) + ')')
                    val = l.objs.get(oid)
                    l.objs[oid] = TOMB
                    l.meta[('h', op[1])] = None
                    self.drop_now(l, val, None, 'completed future')
                else:
                    l.event('op_end', name, pc, k, 'Pending')
                yield l, None
        elif k == 'join':
            s2, fut = self.call(st, 'OwningAddr::<A>::join', [self.href(st, op[1], True)])
            yield s2, fut
        elif k == 'consume':
            o = self.take(st, op[1])
            s2, fut = self.call(st, 'OwningAddr::<A>::consume', [o])
            yield s2, fut
        elif k == 'detach':
            o = self.take(st, op[1])
            s2, a = self.call(st, 'OwningAddr::<A>::detach', [o])
            self.put(s2, op[2], a)
            s2.event('op_end', name, pc, k, op[2])
            yield s2, None
        elif k == 'to_addr':
            s2, a = self.call(st, 'OwningAddr::<A>::to_addr', [self.href(st, op[1])])
            self.put(s2, op[2], a)
            s2.event('op_end', name, pc, k, op[2])
            yield s2, None
        elif k == 'o_call':
            s2, fut = self.call(st, 'OwningAddr::<A>::call::<M>', [self.href(st, op[1]), Msg.new(op[2])])
            yield s2, fut
        elif k == 'o_send':
            s2, fut = self.call(st, 'OwningAddr::<A>::send::<M>', [self.href(st, op[1]), Msg.new(op[2])])
            yield s2, fut
        else:
            raise Unsupported(f"unknown op {k}")


# =========================================================================================== oracles
def _ops(tr):
    """[(client, pc, kind, arg, begin_idx, end_idx, result)]"""
    begins = {}
    out = []
    for i, e in enumerate(tr):
        if e[0] == 'op_begin':
            begins[(e[1], e[2])] = (i, e[3], e[4])
        elif e[0] == 'op_end':
            b = begins.pop((e[1], e[2]), (i, e[3], ''))
            out.append(dict(client=e[1], pc=e[2], kind=e[3], arg=b[2], begin=b[0], end=i, result=e[4]))
    for (c, pc), b in begins.items():
        out.append(dict(client=c, pc=pc, kind=b[1], arg=b[2], begin=b[0], end=None, result=None))
    return out


def _msg_of(script_op):
    return script_op[2] if len(script_op) > 2 else None


def handled_order(tr):
    """message ids in the order their handlers were entered"""
    return [e[4] for e in tr if e[0] == 'user_call' and e[1] == 'handle']


SUBMIT = ('call', 'send', 'sender_send', 'caller_call', 'weak_send', 'weak_call')


def oracle_fifo(tr, scripts):
    """C01: handlers never overlap; each message handled at most once; if submission of m1 completed before the
    submission of m2 began, m2 is not handled before m1 nor without m1."""
    v = []
    order = handled_order(tr)
    if len(order) != len(set(order)):
        v.append(f"a message was handled twice: {order}")
    # overlap
    open_h = None
    for e in tr:
        if e[0] == 'user_call' and e[1] == 'handle':
            if open_h is not None:
                v.append(f"handler for {e[4]} entered while handler for {open_h} still running")
            open_h = e[4]
        elif e[0] in ('user_done', 'user_abandoned') and e[1] == 'handle':
            open_h = None      # (abandoned = its future was dropped by a handler timeout: it no longer runs)
    ops = [o for o in _ops(tr) if o['kind'] in SUBMIT]
    msg = {}
    for o in ops:
        m = _msg_of(scripts[o['client']][o['pc']])
        msg[(o['client'], o['pc'])] = m
    pos = {m: i for i, m in enumerate(order)}
    for a in ops:
        for b in ops:
            if a is b or a['end'] is None:
                continue
            ok_a = a['result'] is not None and a['result'].startswith('Ok')
            # "submission completed": send returned Ok / call returned (any result) ; for calls completion implies handled
            if a['kind'] in ('send', 'sender_send', 'weak_send') and not ok_a:
                continue
            if a['end'] < b['begin']:
                ma, mb = msg[(a['client'], a['pc'])], msg[(b['client'], b['pc'])]
                if mb in pos:
                    if ma not in pos:
                        # (a call that returned Canceled had been accepted: its message was dropped without ever being handled)
                        if a['kind'] in ('send', 'sender_send', 'weak_send') or ok_a or 'Canceled' in str(a['result']):
                            v.append(f"{mb} was handled without {ma} although {ma}'s submission had completed first")
                    elif pos[ma] > pos[mb]:
                        v.append(f"{mb} handled before {ma} although {ma}'s submission had completed first")
    return v


def oracle_own_result(tr, scripts):
    """C02: a call returning Ok(r) returns the response of its own message, which was handled exactly once"""
    v = []
    order = handled_order(tr)
    for o in _ops(tr):
        if o['kind'] in ('call', 'caller_call', 'weak_call') and o['result'] and o['result'].startswith('Ok'):
            m = _msg_of(scripts[o['client']][o['pc']])
            if f"Response[{m}]" not in o['result']:
                v.append(f"call({m}) returned {o['result']}")
            if order.count(m) != 1:
                v.append(f"call({m}) returned Ok but its message was handled {order.count(m)} times")
    return v


def oracle_resolves(tr, status, scripts):
    """C02: every operation resolves: at quiescence no client is stuck in an operation"""
    v = []
    if status == 'quiescent':
        for o in _ops(tr):
            if o['end'] is None:
                v.append(f"{o['client']} op {o['pc']} {o['kind']}({o['arg']}) never resolved (system quiescent)")
    return v


def oracle_stop_barrier(tr, scripts):
    """C04: messages whose submission completed before any stop request was issued are handled (calls Ok); messages
    submitted after an accepted stop request returned are never handled (Err)."""
    v = []
    ops = _ops(tr)
    stops = [o for o in ops if o['kind'] in ('stop', 'halt', 'try_stop')]
    # a stop request issued by the actor itself (Context::stop from a handler) counts from the moment it was accepted
    ctx_stops = [i for i, e in enumerate(tr) if e[0] == 'script_result' and e[1] == 'ctx.stop' and str(e[2]).startswith('Ok')]
    if not stops and not ctx_stops:
        return v
    first_stop_begin = min([o['begin'] for o in stops] + ctx_stops)
    accepted = [o for o in stops if o['kind'] == 'halt' or (o['result'] and o['result'].startswith('Ok'))]
    order = handled_order(tr)
    ended = any(e[0] == 'task_done' and e[1] == 'loop' for e in tr)
    for o in ops:
        if o['kind'] not in SUBMIT:
            continue
        m = _msg_of(scripts[o['client']][o['pc']])
        done_ok = o['end'] is not None and o['result'] and o['result'].startswith('Ok')
        if o['end'] is not None and o['end'] < first_stop_begin and (done_ok or o['kind'] in ('call', 'caller_call', 'weak_call')):
            if o['kind'] in ('call', 'caller_call', 'weak_call') and not done_ok:
                v.append(f"call({m}) completed before any stop was issued but returned {o['result']}")
            if ended and m not in order and done_ok:
                v.append(f"{m} was accepted before any stop request but never handled")
        for s in accepted:
            if s['kind'] != 'halt' and s['end'] is not None and o['begin'] > s['end']:
                if m in order:
                    v.append(f"{m} was submitted after an accepted stop returned but was handled")
                if done_ok and o['kind'] in ('call', 'caller_call', 'weak_call'):
                    v.append(f"call({m}) issued after an accepted stop returned Ok")
    return v


def oracle_live_ops(tr, scripts):
    """an operation on an actor that is running and was never asked to stop does not fail: call / ping are answered,
    stop / restart are accepted (they never wait for, or are refused for lack of, mailbox space)"""
    v = []
    ops = _ops(tr)
    trouble = next((i for i, e in enumerate(tr) if e[0] in ('task_killed', 'task_panicked', 'user_panic', 'user_abandoned', 'panic')
                    or (e[0] == 'task_done' and e[1] == 'loop')
                    or (e[0] == 'chan_pop' and str(e[2]) in ('Stop', 'closed'))
                    or (e[0] == 'script_result' and e[1] in ('ctx.stop',))), None)
    first_stop = min([o['begin'] for o in ops if o['kind'] in ('stop', 'halt', 'try_stop', 'drop', 'consume', 'detach')], default=None)
    for o in ops:
        if o['kind'] not in ('call', 'ping', 'stop', 'restart') or o['end'] is None:
            continue
        res = str(o['result'])
        if res.startswith('Ok'):
            continue
        if trouble is not None and trouble < o['end']:
            continue
        if first_stop is not None and first_stop < o['end'] and o['kind'] in ('call', 'ping'):
            continue
        if first_stop is not None and first_stop < o['begin']:
            continue
        v.append(f"{o['kind']} on a running actor that nobody had stopped returned {res}")
    return v


def oracle_backpressure(tr, cap, scripts, want_counts=False):
    """C12: at every moment #(waiting sends that returned Ok) - #(of those already taken out of the mailbox) <= n;
    on an unbounded mailbox a send never waits (returns at its first poll).  A message is taken out of the mailbox in
    the same poll in which its handler is entered, so handler entry is used as the observable dequeue event (this also
    works on native traces)."""
    v = []
    if cap is None:
        for o in _ops(tr):
            if o['kind'] in ('send', 'sender_send', 'weak_send', 'prepared_send') and o['end'] is not None:
                scheds = [e for e in tr[o['begin']:o['end']] if e[0] == 'sched']
                if scheds:
                    v.append(f"send on an unbounded mailbox needed more than one poll ({len(scheds) + 1})")
        return v
    entered = {}
    term = None
    for i, e in enumerate(tr):
        if e[0] == 'user_call' and e[1] == 'handle':
            entered.setdefault(e[4], i)
        if term is None and e[0] in ('task_done', 'task_killed', 'task_panicked') and e[1] == 'loop':
            term = i          # the receiver is dropped: everything still queued is taken out (and discarded)
    sends = []
    for o in _ops(tr):
        if o['kind'] in ('send', 'sender_send', 'weak_send', 'prepared_send') and o['end'] is not None and str(o['result']).startswith('Ok'):
            sends.append((o['end'], _msg_of(scripts[o['client']][o['pc']])))
    for (ri, _m) in sends:
        if term is not None and ri > term:
            continue
        behind = sum(1 for (rj, mj) in sends if rj <= ri and not (mj in entered and entered[mj] < ri))
        if want_counts:
            v.append(behind)
        elif behind > cap:
            v.append(f"{behind} sends had returned Ok while their messages were still in a mailbox bounded to {cap}")
    return sorted(set(v)) if want_counts else v


def _sched_owner(tr, idx):
    for i in range(idx, -1, -1):
        if tr[i][0] == 'sched':
            return tr[i][1]
    return None


STRONG_MAKERS = {'clone': 2, 'mk_sender': 2, 'mk_caller': 2}
WEAK_MAKERS = {'downgrade': 2, 'mk_weak_sender': 2, 'mk_weak_caller': 2}


def oracle_handles(tr, status, scripts, initial='addr'):
    """C05 / C15 over the trace of a handle-manipulation program.  Ghost state: the set of live strong handles (by the
    script's names).  Returns (c05, c15) violation lists."""
    c05, c15 = [], []
    strong = {initial: 'Addr' if initial == 'addr' else 'OwningAddr'}
    kindof = {'clone': 'Addr', 'mk_sender': 'Sender', 'mk_caller': 'Caller', 'upgrade': 'Addr', 'upgrade_sender': 'Sender',
              'upgrade_caller': 'Caller'}
    stop_issued = False
    restarting = False
    failed = any(e[0] == 'task_done' and e[1] == 'loop' and not str(e[2]).startswith('Ok') for e in tr)
    last_strong_drop = None
    for i, e in enumerate(tr):
        if e[0] == 'op_end':
            client, pc, kind, res = e[1], e[2], e[3], e[4]
            op = scripts[client][pc]
            if kind in STRONG_MAKERS:
                strong[op[2]] = kindof[kind]
            elif kind in ('upgrade', 'upgrade_sender', 'upgrade_caller'):
                if strong and res != 'Some':
                    c15.append(f"{kind} failed although strong handles {sorted(set(strong.values()))} exist")
                if not strong and res == 'Some':
                    c05.append(f"{kind} succeeded although no strong handle is left")
                if res == 'Some' and len(op) > 2:
                    strong[op[2]] = kindof[kind]
            elif kind == 'to_addr':
                strong[op[2]] = 'Addr'
            elif kind == 'detach':
                strong.pop(op[1], None)
                strong[op[2]] = 'Addr'
            elif kind == 'drop':
                if op[1] in strong:
                    del strong[op[1]]
                    if not strong:
                        last_strong_drop = i
            elif kind in ('stop', 'try_stop') and str(res).startswith('Ok'):
                stop_issued = True
        elif e[0] == 'op_begin' and e[3] in ('halt', 'consume'):
            stop_issued = True
            strong.pop(scripts[e[1]][e[2]][1], None)
        elif e[0] == 'script_result':
            what, res = e[1], e[2]
            if what in ('ctx.stop', 'ctx.restart'):
                if strong and not str(res).startswith('Ok'):
                    c15.append(f"{what} from a handler returned {res} although strong handles {sorted(set(strong.values()))} exist")
                if what == 'ctx.stop' and str(res).startswith('Ok'):
                    stop_issued = True
        elif e[0] == 'refresh_call':
            restarting = True
        elif e[0] == 'user_call' and e[1] == 'started':
            restarting = False
        elif e[0] == 'user_call' and e[1] == 'stopped':
            if strong and not stop_issued and not failed and not restarting:
                c05.append(f"actor stopped although strong handles {sorted(set(strong.values()))} exist and nobody stopped it")
    if status == 'quiescent' and not strong and not failed:
        done = [e for e in tr if e[0] == 'task_done' and e[1] == 'loop']
        if not done:
            c05.append("no strong handle is left but the actor never terminated")
        elif not str(done[0][2]).startswith('Ok'):
            c05.append(f"last strong handle dropped but termination was not graceful: {done[0][2]}")
        # everything accepted was handled
        order = handled_order(tr)
        for o in _ops(tr):
            if o['kind'] in ('send', 'sender_send', 'weak_send', 'prepared_send') and o['result'] and o['result'].startswith('Ok'):
                m = _msg_of(scripts[o['client']][o['pc']])
                if m not in order:
                    c05.append(f"{m} was accepted but not handled before the actor stopped after the last drop")
    return c05, c15


def oracle_liveness_flags(tr, scripts):
    """C14: stopped()/running()/WeakAddr::stopped() tell the truth relative to the loop's termination"""
    v = []
    term = next((i for i, e in enumerate(tr) if e[0] == 'task_done' and e[1] == 'loop'), None)
    killed = next((i for i, e in enumerate(tr) if e[0] in ('task_killed', 'task_panicked') and e[1] == 'loop'), None)
    if killed is not None and (term is None or killed < term):
        term = killed
    for i, e in enumerate(tr):
        if e[0] == 'op_end' and e[3] in ('stopped', 'running', 'weak_stopped'):
            val = e[4] == '1'
            says_stopped = val if e[3] != 'running' else not val
            begin = next(j for j in range(i, -1, -1) if tr[j][0] == 'op_begin' and tr[j][1] == e[1] and tr[j][2] == e[2])
            if e[4] == 'panic' or any(x[0] == 'panic' for x in tr[begin:i]):
                v.append(f"{e[3]}() panicked (Shared future polled again after completion): the handle, or the handle it was cloned / downgraded from, had been awaited to completion before")
                continue
            if term is not None and begin > term and not says_stopped:
                polled = any(x[0] == 'shared_complete' for x in tr[:begin])
                v.append(f"{e[3]}() reports not-stopped after the actor terminated ({'an address was awaited before' if polled else 'no address was ever awaited'})")
            if (term is None or i < term) and says_stopped:
                v.append(f"{e[3]}() reports stopped while the actor is still running")
    return v


def oracle_containment(tr, status, scripts):
    """C06 (single actor part): once the actor task died (cancelled, panicked, failed), every pending and later
    operation on it resolves with an error, awaiting its address yields an error, nothing is handled afterwards."""
    v = []
    death = None
    for i, e in enumerate(tr):
        if e[0] in ('task_killed', 'task_panicked') and e[1] == 'loop':
            death = i
            break
        if e[0] == 'task_done' and e[1] == 'loop' and not str(e[2]).startswith('Ok'):
            death = i
            break
    if death is None:
        return v
    for o in _ops(tr):
        if o['kind'] in SUBMIT + ('ping', 'await', 'halt'):
            if o['begin'] > death and o['end'] is not None and str(o['result']).startswith('Ok'):
                v.append(f"{o['kind']} issued after the actor died returned {o['result']}")
            if o['kind'] in ('await', 'halt') and o['end'] is not None and o['end'] > death and str(o['result']).startswith('Ok'):
                v.append(f"awaiting the address of a dead actor yielded {o['result']}")
            if status == 'quiescent' and o['end'] is None:
                v.append(f"{o['client']} {o['kind']}({o['arg']}) is still pending although the actor died (system quiescent)")
    late = [e for e in tr[death + 1:] if e[0] == 'user_call']
    if late:
        v.append(f"callback {late[0][1]} ran after the actor task had died")
    return v


def oracle_timeouts(tr, cfg, status=None):
    """C11 at system level (virtual clock): a handler is abandoned only after its full budget T has elapsed since it
    started, never without a configured timeout; an abandoned handler ends the actor with an error iff fail_on_timeout,
    otherwise the loop goes on with the next message"""
    v = []
    T, fail = cfg if cfg else (None, False)
    now = 0
    times = []
    for e in tr:
        if e[0] == 'clock':
            now = e[1]
        times.append(now)
    for i, e in enumerate(tr):
        if not (e[0] == 'user_call' and e[1] == 'handle'):
            continue
        n, ctx = e[2], e[3]
        ts = times[i]
        done = None
        nxt = None
        for j in range(i + 1, len(tr)):
            x = tr[j]
            if x[0] == 'user_done' and x[1] == 'handle' and x[2] == n:
                done = j
                break
            if x[0] in ('user_panic', 'task_killed', 'task_panicked', 'panic'):
                nxt = None
                done = -1
                break
            if (x[0] == 'chan_pop') or (x[0] == 'task_done' and x[1] == 'loop') or (x[0] == 'user_call' and x[3] == ctx and x[2] != n):
                nxt = j
                break
        if done is None and nxt is None and T is not None and status == 'quiescent' \
                and not any(x[0] == 'user_abandoned' and x[1] == 'handle' and x[2] == n for x in tr[i:]):
            # the system came to rest (the clock ran past every armed timer) and this handler is still open
            v.append(f"handler {n} was never abandoned although a timeout of {T} is configured and it did not complete")
        if done is not None or nxt is None:
            continue
        ta = times[nxt]
        if T is None:
            v.append(f"handler {n} was abandoned although no timeout is configured")
            continue
        if ta - ts < T:
            v.append(f"handler {n} was abandoned {ta - ts} ticks after it started although the timeout is {T}")
        x = tr[nxt]
        ended_err = x[0] == 'task_done' and not str(x[2]).startswith('Ok')
        if fail and not ended_err:
            v.append(f"handler {n} timed out with fail_on_timeout but the actor went on ({x[0]} {x[1] if len(x) > 1 else ''})")
        if not fail and x[0] == 'task_done':
            v.append(f"handler {n} timed out without fail_on_timeout but the actor ended ({x[2]})")
    return v


def oracle_stream(tr, status, scripts):
    """C13 at system level: a stream-attached actor handles every item the stream yields exactly once, in stream order,
    each to completion; when the stream ends, on stop, or on the last drop: finished then stopped exactly once and the
    loop ends Ok; the stream is not polled again after it ended; the actor does not outlive the end of its stream"""
    v = []
    fed = [e[1] for e in tr if e[0] == 'stream_feed']
    yielded = [e[1] for e in tr if e[0] == 'stream_yield' and e[1] != 'end']
    if not fed and yielded and all(re.fullmatch(r'r\d+', str(y)) for y in yielded):
        fed = list(yielded)       # a stream that is ready at every poll (mode 'repeat'): it yields r1, r2, ... by itself
    handled = [str(e[4]) for e in tr if e[0] == 'user_call' and e[1] == 'stream']
    done = [str(e[4]) for e in tr if e[0] == 'user_done' and e[1] == 'stream']
    def ids(xs):
        return [next((f for f in fed if f in x), x) for x in xs]
    handled, done = ids(handled), ids(done)
    if yielded != fed[:len(yielded)]:
        v.append(f"the stream yielded {yielded} although it was fed {fed}")
    if handled != yielded[:len(handled)]:
        v.append(f"items handled {handled} but the stream yielded {yielded}")
    death = next((i for i, e in enumerate(tr) if e[0] in ('task_done', 'task_killed', 'task_panicked') and e[1] == 'loop'), None)
    if death is not None and tr[death][0] == 'task_done' and len(handled) != len(yielded):
        v.append(f"the stream yielded {len(yielded)} items but {len(handled)} were handled before the actor ended")
    if death is not None and tr[death][0] == 'task_done' and done != handled:
        v.append(f"an item handler was abandoned: started {handled}, completed {done}")
    if any(e[0] == 'stream_polled_after_end' for e in tr):
        v.append("the stream was polled again after it had ended")
    end = next((i for i, e in enumerate(tr) if e[0] == 'stream_yield' and e[1] == 'end'), None)
    if end is not None:
        late = [e for e in tr[end + 1:] if e[0] == 'user_call' and e[1] in ('stream', 'handle')]
        if late:
            v.append(f"a {late[0][1]} callback ran after the stream had ended")
        if status == 'quiescent' and death is None:
            v.append("the stream ended but the actor did not terminate")
    if death is not None and tr[death][0] == 'task_done' and str(tr[death][2]).startswith('Ok'):
        cbs = [e[1] for e in tr[:death] if e[0] == 'user_done' and e[1] in ('finished', 'stopped')]
        if cbs != ['finished', 'stopped']:
            v.append(f"a stream-attached actor ended gracefully with the closing callbacks {cbs}, expected ['finished', 'stopped']")
    closed = any(e[0] == 'stream_closed' for e in tr)
    if status == 'quiescent' and closed and death is None and end is None:
        v.append("the stream was closed but the actor never observed its end (system quiescent)")
    return v


def oracle_lifecycle(tr, single=True, fail_on_timeout=False):
    """C03 at system level: per actor (context) the callbacks follow the lifecycle protocol - started first and complete
    before anything else, callbacks never overlap, nothing after a failed started, after stopped only a new started
    (restart); for the single-actor programs: the loop ends Ok only right after stopped(), and once it ended nothing runs"""
    v = []
    per = {}
    for i, e in enumerate(tr):
        if e[0] in ('user_call', 'user_done', 'user_abandoned') and e[1] in ('started', 'stopped', 'handle', 'finished', 'stream'):
            per.setdefault(e[3], []).append((i, e))
    for ctx, evs in per.items():
        state = 'new'        # new -> starting -> running -> stopping -> stopped -> starting ... | failed
        open_cb = None
        for i, e in evs:
            kind = e[1]
            if e[0] == 'user_call':
                if open_cb is not None:
                    v.append(f"{ctx}: {kind} was called while {open_cb} had not completed")
                open_cb = kind
                if state == 'failed':
                    v.append(f"{ctx}: {kind} was called after started() had failed")
                elif kind == 'started':
                    if state not in ('new', 'stopped'):
                        v.append(f"{ctx}: started() was called in state {state}")
                    state = 'starting'
                elif kind == 'stopped':
                    if state not in ('running', 'finished'):
                        v.append(f"{ctx}: stopped() was called in state {state}")
                    state = 'stopping'
                elif kind == 'finished':
                    if state != 'running':
                        v.append(f"{ctx}: finished() was called in state {state}")
                    state = 'finishing'
                else:
                    if state != 'running':
                        v.append(f"{ctx}: a {kind} callback ran in state {state}")
            elif e[0] == 'user_abandoned':
                open_cb = None
                if fail_on_timeout:
                    state = 'failed'
            else:
                open_cb = None
                if kind == 'started':
                    state = 'running' if str(e[4]) == 'ok' else 'failed'
                elif kind == 'stopped':
                    state = 'stopped'
                elif kind == 'finished':
                    state = 'finished'
        if single and ctx == 'ctx0':
            end = next((i for i, e in enumerate(tr) if e[0] == 'task_done' and e[1] == 'loop'), None)
            if end is not None:
                ok_end = str(tr[end][2]).startswith('Ok')
                if ok_end and state != 'stopped':
                    v.append(f"the loop ended Ok in lifecycle state {state} (stopped() did not run last)")
                if not ok_end and state not in ('failed',):
                    v.append(f"the loop ended with an error in lifecycle state {state}")
                late = [e for (i, e) in evs if i > end]
                if late:
                    v.append(f"{late[0][1]} ran after the loop had ended")
    return v


def oracle_owning(tr, status, scripts):
    """C17: join / consume resolve only after the actor terminated, yield the actor in its final state (after its last
    handler and its stopped callback) iff termination was graceful, None if it failed; the value is handed out once."""
    v = []
    term = next((i for i, e in enumerate(tr) if e[0] in ('task_done', 'task_killed', 'task_panicked') and e[1] == 'loop'), None)
    graceful = term is not None and tr[term][0] == 'task_done' and str(tr[term][2]).startswith('Ok')
    # independent of how the loop classified its own end: a started() that returned Err is a failure of the actor
    failed_start = any(e[0] == 'user_done' and e[1] == 'started' and e[4] != 'ok' for e in tr)
    last_cb = None
    for e in tr:
        if e[0] == 'user_done':
            last_cb = e
    somes = 0
    for o in _ops(tr):
        if o['kind'] in ('join', 'await_fut', 'consume') and o['end'] is not None:
            res = str(o['result'])
            if term is None or o['end'] < term:
                v.append(f"{o['kind']} resolved ({res}) before the actor terminated")
            got = res.startswith('Some') or res.startswith('Ok(')
            if got:
                somes += 1
                if not graceful:
                    v.append(f"{o['kind']} yielded the actor although termination was not graceful")
                elif failed_start:
                    v.append(f"{o['kind']} yielded the actor although its started() had failed")
                if 'stopped' not in res:
                    v.append(f"{o['kind']} yielded an actor value that did not go through stopped(): {res}")
                if any(e[0] == 'user_abandoned' and e[1] == 'stopped' for e in tr):
                    v.append(f"{o['kind']} yielded the actor although its stopped() callback was abandoned before it completed")

    if somes > 1:
        v.append(f"the actor value was handed out {somes} times")
    joins = [o for o in _ops(tr) if o['kind'] in ('join', 'await_fut', 'consume')]
    parked = any(o['kind'] == 'poll_once' and str(o['result']) == 'Pending' for o in _ops(tr))
    if graceful and joins and all(o['end'] is not None for o in joins) and somes == 0 and not parked:
        v.append("the actor terminated gracefully and every join completed, but none of them yielded the actor")
    if status == 'panicked':
        v.append("a client task panicked while joining")
    return v
