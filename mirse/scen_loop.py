"""Scenario: the actor event loop (`Environment::create_loop` / `create_loop_on_stream`) executed symbolically
against an arbitrary environment: mailbox contents, readiness of user futures, results of `started`, timer expiry,
configuration (timeout: Option<Duration>, fail_on_timeout: bool), restart strategy and panics in user callbacks.

The environment is modelled by eager forks with z3 variables (one per decision) so that the path condition is a
formula over the environment; hannibal's own data-dependent branches stay symbolic and are decided by z3.
"""
import re
import z3

from engine import (Engine, State, VSym, VAgg, VScalar, VRef, VConst, UNIT, Unsupported, strip_generics)
import models
from models import R, _target_of_pin, _load, _store

POLL_PENDING = VAgg(name='Poll', vname='Pending', disc=1)


def ready(v):
    return VAgg(name='Poll', vname='Ready', disc=0, fields={('v', 'Ready', 0): v})


def ok(v):
    return VAgg(name='Result', vname='Ok', disc=0, fields={('v', 'Ok', 0): v})


def err(v):
    return VAgg(name='Result', vname='Err', disc=1, fields={('v', 'Err', 0): v})


def some(v):
    return VAgg(name='Option', vname='Some', disc=1, fields={('v', 'Some', 0): v})


NONE = VAgg(name='Option', vname='None', disc=0)


class LoopScenario:
    """bounds: max_msgs dequeued messages, each leaf future pending at most `max_pending` times, `max_polls` polls of
    the loop future, loop_bound unrollings of any MIR loop per activation."""

    def __init__(self, functions, enums, strategy='RestartOnly', stream=False, max_msgs=3, max_pending=1, max_polls=8,
                 panics=False, max_items=2, loop_bound=8, has_timeout=None, max_paths=200000, max_seconds=900):
        self.eng = Engine(functions, enums=enums, loop_bound=loop_bound, max_paths=max_paths)
        self.strategy = strategy
        self.stream = stream
        self.max_msgs = max_msgs
        self.max_pending = max_pending
        self.max_polls = max_polls
        self.max_items = max_items
        self.panics = panics
        self.has_timeout = has_timeout
        self.decisions = 0
        e = self.eng
        models.install_common(e)
        models.install_resolvers(e)
        e.leaf_poll = self.leaf_poll
        M = e.models
        ins = lambda rx, h: M.insert(0, (R(rx), h))
        # last resort: a call to one of hannibal's own helper functions that builds a future / closure (e.g. an async fn
        # extracted from the loop or from a restart strategy) is executed from its MIR body like everything else
        M.append((R(r'.'), self.m_inline_helper))
        ins(r'^timeout_fut::<', self.m_inline_by_name('timeout_fut', 2))
        ins(r'^<A as actor::Actor>::started$', self.m_user_future('started'))
        ins(r'^<A as actor::Actor>::stopped$', self.m_user_future('stopped'))
        ins(r'^<A as (handler::)?StreamHandler<.*>>::finished$', self.m_user_future('finished'))
        ins(r'^<A as (handler::)?StreamHandler<.*>>::handle$', self.m_user_future('item'))
        ins(r'^<A as Default>::default$', self.m_default)
        ins(r'^<Box<dyn for<.a> FnOnce\(&.a mut A, &.a mut (context::)?Context<A>\).*as FnOnce<.*>>::call_once$', self.m_task_call)
        ins(r' as StreamExt>::next$', self.m_stream_next)
        ins(r' as (futures::)?FutureExt>::now_or_never$', self.m_now_or_never)
        ins(r'^<R as (actor::restart_strategy::)?RestartStrategy<A>>::refresh$', self.m_refresh)
        ins(r'^StopNotifier::notify$', self.m_inline_suffix('::notify', 'StopNotifier'))
        ins(r'oneshot::Sender::<\(\)>::send$', self.m_oneshot_send)
        ins(r'^std::result::Result::<\(\), \(\)>::ok$', lambda e, st, fr, t, a: VSym('ok()'))
        ins(r'^futures_timer::Delay::new$', self.m_delay_new)
        ins(r'^<ActorError as Into<.*>>::into$', lambda e, st, fr, t, a: VAgg(name='BoxError', fields={('f', 0): a[0]}))
        ins(r'^std::rt::begin_panic::<', self.m_panic)
        ins(r'^std::rt::panic_fmt$|^core::panicking::panic', self.m_panic)

    # ------------------------------------------------------------------ helpers
    def fresh(self, name, lo, hi):
        self.decisions += 1
        v = z3.Int(f"{name}_{self.decisions}")
        return v, z3.And(v >= lo, v <= hi)

    def m_inline_by_name(self, name, nargs):
        try:
            fn = self.eng.find_one(name, nargs=nargs) if not name.startswith('::') else None
        except Unsupported:
            fn = None       # (a tree that no longer has a helper of that name: the generic helper inlining takes over)

        def h(e, st, fr, t, args):
            try:
                f = fn or e.find_one(name, nargs=nargs)
            except Unsupported:
                return NotImplemented
            e.push_call(st, f, args, ret_dest=t.dest, ret_bb=t.target, unwind_bb=t.unwind)
            return None
        return h

    def m_inline_suffix(self, suffix, argsub):
        def h(e, st, fr, t, args):
            f = e.find_one(suffix, argtype_sub=argsub)
            st.event('inline', suffix)
            e.push_call(st, f, args, ret_dest=t.dest, ret_bb=t.target, unwind_bb=t.unwind)
            return None
        return h

    def m_panic(self, e, st, fr, t, args):
        st.event('panic', 'explicit', _const_text(args))
        st.status = 'panicked'
        return None

    # ------------------------------------------------------------------ environment: user callbacks
    def m_user_future(self, kind):
        def h(e, st, fr, t, args):
            n = sum(1 for ev in st.events if ev[0] == 'call_' + kind) + 1
            st.event('call_' + kind, n, st.meta.get('incarnation', 1))
            # &mut actor / &mut ctx are handed to user code: havoc them
            for a in args:
                if isinstance(a, VRef) and a.mut:
                    e._havoc_ref(st, a, f"{kind}#{n}")
            return VAgg(name='leaf', fields={}, extra={'kind': kind, 'n': n})
        return h

    def m_default(self, e, st, fr, t, args):
        st.event('default_actor')
        return VSym('A::default()', 'A')

    def m_task_call(self, e, st, fr, t, args):
        n = sum(1 for ev in st.events if ev[0] == 'call_task') + 1
        st.event('call_task', n, st.meta.get('incarnation', 1))
        tup = args[1]
        for a in tup.fields.values():
            if isinstance(a, VRef) and a.mut:
                e._havoc_ref(st, a, f"task#{n}")
        leaf = VAgg(name='leaf', fields={}, extra={'kind': 'task', 'n': n})
        oid = st.alloc(leaf)
        return VAgg(name='Pin', fields={('f', 0): VAgg(name='Box', fields={('f', 0): VRef(('obj', oid), (), True)})})

    def m_stream_next(self, e, st, fr, t, args):
        # which stream? the mailbox (PollFn<Box<dyn FnMut..Payload..>>) or the attached stream S
        which = 'mailbox' if 'Payload<A>' in t.func else 'stream'
        return VAgg(name='leaf', fields={('f', 0): args[0]}, extra={'kind': 'next_' + which, 'n': 0})

    def m_inline_helper(self, e, st, fr, t, args):
        if not hasattr(self, '_resolver'):
            import mirdump
            from resolver import Resolver
            self._resolver = Resolver(e.functions, mirdump.REPO)
        try:
            fn = self._resolver.resolve(t.func)
        except Unsupported:
            fn = None
        if fn is None or fn.nargs != len(args):
            return NotImplemented
        rt = fn.ret_type or ''
        takes_notifier = any(isinstance(a, VAgg) and a.name == 'StopNotifier' for a in args)
        in_env = fn.name.startswith('environment::')
        if not ('{async' in rt or '{closure' in rt or '{coroutine' in rt or 'impl Future' in rt or 'impl futures::Future' in rt
                or takes_notifier or in_env):
            return NotImplemented       # other plain helpers stay opaque at this level (their arguments are symbolic)
        e.push_call(st, fn, args, ret_dest=t.dest, ret_bb=t.target, unwind_bb=t.unwind)
        return None

    def m_now_or_never(self, e, st, fr, t, args):
        """FutureExt::now_or_never(fut): one poll with a no-op waker; Ready(v) -> Some(v), Pending -> None"""
        fut = args[0]
        if not (isinstance(fut, VAgg) and fut.name == 'leaf'):
            return NotImplemented
        ref = VRef(('obj', st.alloc(fut)), (), True)
        outs = []
        for s2, pv in self.leaf_poll(st, ref, fut):
            if not s2.meta.get('panic_now'):
                ready_now = isinstance(pv, VAgg) and pv.vname == 'Ready'
                val = some(pv.fields[('v', 'Ready', 0)]) if ready_now else NONE
                f2 = s2.frames[-1]
                e.write_place(s2, f2, t.dest, val)
                f2.bb = t.target
            outs.append(s2)
        return outs

    def m_delay_new(self, e, st, fr, t, args):
        st.event('delay_new', repr(args[0])[:40])
        return VAgg(name='leaf', fields={('f', 0): args[0]}, extra={'kind': 'delay', 'n': sum(1 for ev in st.events if ev[0] == 'delay_new')})

    def m_oneshot_send(self, e, st, fr, t, args):
        st.event('notify_send')
        return VSym('send_result', 'Result<(), ()>')

    def m_refresh(self, e, st, fr, t, args):
        # <R as RestartStrategy<A>>::refresh(actor, ctx): R is chosen by the scenario (builder type-state)
        cands = [f for f in e.functions if f.name.endswith('::refresh') and f.nargs == 2 and
                 f"<{self.strategy} as RestartStrategy<A>>::refresh" in f.ret_type]
        if len(cands) != 1:
            raise Unsupported(f"refresh for strategy {self.strategy}: {len(cands)} candidates")
        st.event('refresh_call', self.strategy)
        e.push_call(st, cands[0], args, ret_dest=t.dest, ret_bb=t.target, unwind_bb=t.unwind)
        return None

    # ------------------------------------------------------------------ environment: leaf futures
    def leaf_poll(self, st, ref, fut):
        e = self.eng
        if not (isinstance(fut, VAgg) and fut.name == 'leaf'):
            raise Unsupported(f"poll of unmodelled future {fut!r}")
        kind = fut.extra['kind']
        n = fut.extra['n']
        pend = fut.extra.get('pend', 0)
        outs = []   # (label, constraint, pollvalue, events, newfut)

        def upd(**kw):
            ex = dict(fut.extra)
            ex.update(kw)
            return VAgg(name='leaf', fields=fut.fields, extra=ex)

        if kind in ('started', 'stopped', 'finished', 'task', 'item', 'delay'):
            v, dom = self.fresh(f"{kind}{n}_poll", 0, 3)
            can_pend = pend < self.max_pending
            if can_pend:
                outs.append((f"{kind}#{n}:pending", z3.And(dom, v == 1), POLL_PENDING, [(kind + '_poll', n, 'pending')], upd(pend=pend + 1)))
            if kind == 'started':
                outs.append((f"started#{n}:ok", z3.And(dom, v == 0), ready(ok(UNIT)), [('started_poll', n, 'ok')], upd(done=True)))
                outs.append((f"started#{n}:err", z3.And(dom, v == 2), ready(err(VSym('started_error', 'BoxError'))), [('started_poll', n, 'err')], upd(done=True)))
            else:
                outs.append((f"{kind}#{n}:ready", z3.And(dom, v == 0), ready(UNIT), [(kind + '_poll', n, 'ready')], upd(done=True)))
            if self.panics and kind in ('started', 'stopped', 'task', 'item', 'finished'):
                outs.append((f"{kind}#{n}:panic", z3.And(dom, v == 3), 'PANIC', [(kind + '_poll', n, 'panic')], upd(done=True)))
        elif kind == 'next_mailbox':
            taken = st.meta.get('taken', 0)
            idle = st.meta.get('idle', 0)
            v, dom = self.fresh(f"mailbox{taken}", 0, 4)
            if idle < self.max_pending:
                outs.append((f"mailbox:pending", z3.And(dom, v == 0), POLL_PENDING, [('next', 'pending')], None))
            outs.append((f"mailbox:closed", z3.And(dom, v == 1), ready(NONE), [('next', 'none')], None))
            if taken < self.max_msgs:
                for code, nm in ((2, 'Task'), (3, 'Stop'), (4, 'Restart')):
                    if nm == 'Task':
                        pl = VAgg(name='Payload', vname='Task', disc=0, fields={('v', 'Task', 0): VAgg(name='Box', fields={}, extra={'payload': taken + 1})})
                    else:
                        pl = VAgg(name='Payload', vname=nm, disc=self.eng.variant_index('Payload', nm))
                    outs.append((f"mailbox:{nm}", z3.And(dom, v == code), ready(some(pl)), [('next', nm.lower(), taken + 1)], None))
        elif kind == 'next_stream':
            items = st.meta.get('items', 0)
            idle = st.meta.get('sidle', 0)
            v, dom = self.fresh(f"stream{items}", 0, 2)
            if idle < self.max_pending:
                outs.append(("stream:pending", z3.And(dom, v == 0), POLL_PENDING, [('stream_next', 'pending')], None))
            outs.append(("stream:end", z3.And(dom, v == 1), ready(NONE), [('stream_next', 'end')], None))
            if items < self.max_items:
                outs.append(("stream:item", z3.And(dom, v == 2), ready(some(VSym(f"item{items + 1}", 'Item'))), [('stream_next', 'item', items + 1)], None))
        else:
            raise Unsupported(f"leaf kind {kind}")
        outs = [o for o in outs if e.feasible(st, o[1])]
        if not outs:
            return []
        states = [st.clone() for _ in outs[:-1]] + [st]
        res = []
        for s2, (lab, cons, pv, evs, newfut) in zip(states, outs):
            s2.pc.append(cons)
            s2.choices.append(lab)
            for ev in evs:
                s2.event(*ev)
            if newfut is not None:
                _store(e, s2, ref, newfut)
            if kind == 'next_mailbox':
                if lab == 'mailbox:pending':
                    s2.meta['idle'] = s2.meta.get('idle', 0) + 1
                else:
                    s2.meta['idle'] = 0
                    if lab not in ('mailbox:closed',):
                        s2.meta['taken'] = s2.meta.get('taken', 0) + 1
            if kind == 'next_stream':
                if lab == 'stream:pending':
                    s2.meta['sidle'] = s2.meta.get('sidle', 0) + 1
                else:
                    s2.meta['sidle'] = 0
                    if lab == 'stream:item':
                        s2.meta['items'] = s2.meta.get('items', 0) + 1
            if pv == 'PANIC':
                s2.meta['panic_now'] = True
                pv = POLL_PENDING
            res.append((s2, pv))
        return res

    # ------------------------------------------------------------------ driving the loop future
    def initial(self):
        st = State()
        e = self.eng
        self.timeout = VSym('cfg.timeout', 'Option<Duration>')
        self.fail = VSym('cfg.fail_on_timeout', 'bool')
        fields = {('f', 0): VSym('actor0', 'A'), ('f', 1): VSym('ctx', 'context::Context<A>'),
                  ('f', 2): VAgg(name='StopNotifier', fields={('f', 0): VSym('oneshot_tx', 'oneshot::Sender<()>')}),
                  ('f', 3): self.timeout, ('f', 4): self.fail, ('f', 5): VSym('payload_stream', 'PayloadStream<A>')}
        if self.stream:
            # upvar order of create_loop_on_stream's async block is taken from the constructor MIR
            self.loop_fn = e.find_one('::create_loop_on_stream::{closure#0}', nargs=2)
            names = _coroutine_upvars(self.loop_fn)
            fields = {}
            for i, nm in enumerate(names):
                fields[('f', i)] = {
                    'actor': VSym('actor0', 'A'),
                    'self__ctx': VSym('ctx', 'context::Context<A>'),
                    'self__stop': VAgg(name='StopNotifier', fields={('f', 0): VSym('oneshot_tx', 'oneshot::Sender<()>')}),
                    'self__payload_stream': VSym('payload_stream', 'PayloadStream<A>'),
                    'stream': VSym('stream', 'S'),
                }.get(nm, VSym(nm))
            self.loop_fn = e.find_one('::create_loop_on_stream::{closure#0}', nargs=2)
        else:
            self.loop_fn = e.find_one('::create_loop::{closure#0}', nargs=2)
            names = _coroutine_upvars(self.loop_fn)
            m = {'actor': VSym('actor0', 'A'), 'self__ctx': VSym('ctx', 'context::Context<A>'),
                 'self__stop': fields[('f', 2)], 'self__config__timeout': self.timeout,
                 'self__config__fail_on_timeout': self.fail, 'self__payload_stream': fields[('f', 5)],
                 # (the whole config captured instead of its two fields)
                 'self__config': VAgg(name='EnvironmentConfig', fields={('f', 0): self.timeout, ('f', 1): self.fail},
                                      extra={'fieldnames': ('timeout', 'fail_on_timeout')}),
                 'timeout': self.timeout, 'fail_on_timeout': self.fail}
            fields = {}
            for i, nm in enumerate(names):
                if nm not in m:
                    raise Unsupported(f"unexpected loop upvar {nm}")
                fields[('f', i)] = m[nm]
            self.loop_fn = e.find_one('::create_loop::{closure#0}', nargs=2)
        self.upvars = names
        self.oid = st.alloc(VAgg(name='loopfut', disc=0, fields=fields))
        if self.has_timeout is not None and not self.stream:
            d = self.timeout.disc()
            st.pc.append(d == (1 if self.has_timeout else 0))
            st.meta[('dom', self.timeout.id)] = True
        return st

    def explore(self):
        """yields terminal states (returned Ready / panicked / truncated / bound-reached)"""
        st = self.initial()
        yield from self._poll(st, self.max_polls)

    def _poll(self, st, polls_left):
        e = self.eng
        e.push_call(st, self.loop_fn, [VAgg(name='Pin', fields={('f', 0): VRef(('obj', self.oid), (), True)}), VSym('cx')])
        st.event('poll_loop')
        for leaf in self._run_with_panics(st):
            if leaf.status == 'returned':
                d = e.discriminant_of(leaf, leaf.result).v
                if d == 1:
                    if polls_left > 1:
                        leaf.status = 'running'
                        leaf.visits = {}
                        yield from self._poll(leaf, polls_left - 1)
                    else:
                        leaf.status = 'bound'
                        yield leaf
                    continue
                r = leaf.result.fields[('v', 'Ready', 0)]
                rd = e.discriminant_of(leaf, r).v
                leaf.event('return', 'ok' if rd == 0 else 'err')
            yield leaf

    def _run_with_panics(self, st):
        return self.eng.run(st, stop_depth=0)

# --------------------------------------------------------------------------------------------------


def _const_text(args):
    for a in args:
        if isinstance(a, VConst):
            return a.text[:60]
    return ''


def _coroutine_upvars(body):
    """names of the captured variables of a coroutine, by field index, from the `debug` lines of its body
    (`debug self__ctx => ((*_177).1: context::Context<A>);`)"""
    out = {}
    for name, expr in body.debug.items():
        m = re.match(r'^\(\(\*_\d+\)\.(\d+): ', expr)
        if m:
            out[int(m.group(1))] = name
    if not out:
        raise Unsupported(f"no upvar debug info in {body.name}")
    return [out.get(i, f"?{i}") for i in range(max(out) + 1)]
