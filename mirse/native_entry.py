"""Native side of C18: the crate /verif/replay-rt (hv-entry) built once per runtime feature against the tree under
check; runs every spawn entry point and the cross-runtime scenarios on the real tokio / async-std / smol."""
import os
import re
import subprocess

ROOT = os.path.dirname(os.path.dirname(os.path.abspath(__file__)))
CRATE = os.path.join(ROOT, 'replay-rt')
CACHE = os.path.join(ROOT, '.cache')
FEATURE = {'tokio_runtime': 'tokio_rt', 'async_runtime': 'async_rt', 'smol_runtime': 'smol_rt'}


def build(runtime):
    repo = os.environ.get('VERIF_REPO', '/repo')
    crate = CRATE
    import hashlib
    tag = '' if repo == '/repo' else '-' + hashlib.sha1(repo.encode()).hexdigest()[:8]
    if tag:
        import shutil
        crate = os.path.join(CACHE, f'entry-crate{tag}')
        shutil.rmtree(crate, ignore_errors=True)
        shutil.copytree(CRATE, crate, ignore=shutil.ignore_patterns('target*'))
        t = open(os.path.join(crate, 'Cargo.toml')).read().replace('path = "/repo"', f'path = "{repo}"')
        open(os.path.join(crate, 'Cargo.toml'), 'w').write(t)
    tgt = os.path.join(CACHE, f'entry-target-{FEATURE[runtime]}{tag}')
    env = dict(os.environ)
    env.update({'CARGO_NET_OFFLINE': 'true', 'CARGO_TARGET_DIR': tgt})
    p = subprocess.run(['cargo', 'build', '--offline', '--features', FEATURE[runtime], '--manifest-path', os.path.join(crate, 'Cargo.toml')],
                       env=env, capture_output=True, text=True)
    if p.returncode != 0:
        raise RuntimeError(f'hv-entry does not build against the current tree with {runtime}:\n' + p.stderr[-2000:])
    return os.path.join(tgt, 'debug', 'hv-entry')


def run(runtime):
    """-> {scenario: dict(good=bool, line=str)}"""
    b = build(runtime)
    out = {}
    p = subprocess.run([b], capture_output=True, text=True, timeout=120)
    for line in p.stdout.splitlines():
        m = re.match(r'^(\w+) call=(\S+) stop=(\S+) end=(\S+)$', line)
        if m:
            good = m.group(2) == 'Ok(1)' and m.group(3) == 'Ok(())' and (m.group(4) == 'Ok(())' or m.group(4).startswith('Some('))
            out[m.group(1)] = dict(good=good, line=line)
    if p.returncode != 0:
        out['<process>'] = dict(good=False, line=f"hv-entry exited with {p.returncode}: {p.stderr[-300:]}")
    p = subprocess.run([b, 'panics'], capture_output=True, text=True, timeout=120)
    lines = p.stdout.splitlines()
    j = [l for l in lines if l.startswith('own_join_after_panic join=')]
    if j:
        out['own_join_after_panic'] = dict(good=j[0].endswith('join=None'), line=j[0])
    else:
        out['own_join_after_panic'] = dict(good=False, line=f"the joining task died (process exit {p.returncode}) after: {lines[-1] if lines else ''}")
    # the spawning task waits without yielding inside hannibal::runtime::block_on (wall-clock only as an upper bound)
    p = subprocess.run([b, 'blocking'], capture_output=True, text=True, timeout=120)
    for line in p.stdout.splitlines():
        m = re.match(r'^(blocking_\w+) started=(\S+) stopped=(\S+)$', line)
        if m:
            out[m.group(1)] = dict(good=m.group(2) == 'started' and m.group(3) == 'stopped', line=line)
    return out


def strategies(runtime='tokio_runtime'):
    """-> {program name: [callbacks that served the restart request]} from the real crate"""
    b = build(runtime)
    p = subprocess.run([b, 'strategies'], capture_output=True, text=True, timeout=120)
    out = {}
    for line in p.stdout.splitlines():
        m = re.match(r'^(strategy_\w+) restart=(\S*)$', line)
        if m:
            out[m.group(1)] = [x for x in m.group(2).split(',') if x]
    return out


if __name__ == '__main__':
    for rt in FEATURE:
        print(rt)
        for k, v in run(rt).items():
            print('  ', k, v)
