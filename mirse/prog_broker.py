"""Broker programs (C09): subscriber actors subscribe in `started` through the real Context::subscribe (Broker service
spawned on demand through the registry), publishers use Broker::publish / Addr<Broker>::publish / Context::publish,
subscribers unsubscribe / terminate; Broker's own handlers run from MIR."""
from engine import State, VSym, VAgg, VScalar, VRef, VConst, UNIT, TOMB, Unsupported, _describe
from prog_mailbox import MailboxProgram, _ops
from prog_children import ChildrenProgram
from scen_sys import Msg


class BrokerProgram(ChildrenProgram):
    """actors: subscriber candidates s1..sk (handles s1.., tasks loopS1.., contexts ctx0..); the broker is spawned on
    demand by the first operation that needs it (task name `broker`)"""

    def setup(self):
        st = State()
        self.sys.service_kind = 'Broker'
        for i in range(1, self.nchildren + 1):
            st, lp, a = self.make_actor(st, f"sub{i}")
            self.add_task(st, f"loopS{i}", lp)
            self.put(st, f"s{i}", a)
        for name, script in self.scripts.items():
            self.add_task(st, name, UNIT, kind='client', script=script)
        st.events.append(('setup_done',))
        return st

    def start_op(self, st, name, pc, op):
        k = op[0]
        if k == 'publish':
            st.meta['next_task_name'] = 'broker'
            s2, fut = self.call(st, 'Broker::<T>::publish', [Msg.new(op[1])])
            yield s2, fut
        elif k == 'get_broker':
            st.meta['next_task_name'] = 'broker'
            s2, fut = self.call(st, '<Broker<T> as Service>::from_registry', [])
            yield s2, fut
        elif k == 'addr_publish':
            s2, fut = self.call(st, 'broker::<impl Addr<Broker<T>>>::publish', [self.href(st, op[1]), Msg.new(op[2])])
            yield s2, fut
        elif k == 'addr_subscribe':
            s2, ws = self.call(st, 'Addr::<A>::weak_sender::<M>', [self.href(st, op[2])])
            s3, fut = self.call(s2, 'broker::<impl Addr<Broker<T>>>::subscribe', [self.href(s2, op[1]), ws])
            yield s3, fut
        elif k == 'unsubscribe':
            # Addr<Broker>::unsubscribe(weak sender of the subscriber)
            s2, ws = self.call(st, 'Addr::<A>::weak_sender::<M>', [self.href(st, op[2])])
            s3, fut = self.call(s2, 'broker::<impl Addr<Broker<T>>>::unsubscribe', [self.href(s2, op[1]), ws])
            yield s3, fut
        else:
            yield from super().start_op(st, name, pc, op)

    def op_result(self, st, name, pc, op, res):
        if op[0] == 'get_broker' and isinstance(res, VAgg) and res.name == 'Addr':
            self.put(st, op[1], res)
            return
        super().op_result(st, name, pc, op, res)


def oracle_broker(tr, status, spec):
    """C09. spec['subscribers']: indices (1-based) of the actors that subscribe in started; context ids ctx0.. in order."""
    v = []
    subs = {f"ctx{i-1}" for i in spec['subscribers']}
    allsubs = {f"ctx{i}" for i in range(spec['nactors'])}
    # subscription completion = the subscriber's started future (the subscribe coroutine) finished = first event of its
    # loop after 'user_call started ... subscribe' that is a mailbox poll; approximate by the broker having handled Subscribe
    sub_done = {}
    for i, e in enumerate(tr):
        if e[0] == 'broker_handle' and e[1] == 'Subscribe':
            pass
    # deliveries per subscriber: (publication id, index)
    deliv = {}
    for i, e in enumerate(tr):
        if e[0] == 'user_call' and e[1] == 'handle' and str(e[4]).startswith('p'):
            base = str(e[4]).split('#')[0]
            deliv.setdefault(e[3], []).append((base, i))
    pubs = [o for o in _ops(tr) if o['kind'] in ('publish', 'addr_publish')]
    # publications made by actors through Context::publish: the handler invocation is the "publish operation"
    for i, e in enumerate(tr):
        if e[0] == 'ctx_publish':
            pubs.append(dict(client='ctx:' + e[1], pc=0, kind='ctx_publish', arg=e[2], begin=i, end=i + 1, result='Ok'))
    term = {}
    for i, e in enumerate(tr):
        if e[0] in ('task_done', 'task_killed', 'task_panicked') and str(e[1]).startswith('loopS'):
            term.setdefault(f"ctx{int(e[1][5:]) - 1}", i)
    unsub_done = {}
    for o in _ops(tr):
        if o['kind'] == 'unsubscribe' and o['end'] is not None and str(o['result']).startswith('Ok'):
            tgt = spec['scripts'][o['client']][o['pc']][2]
            unsub_done[f"ctx{int(tgt[1:]) - 1}"] = o['end']
    # when did each subscriber's subscription complete? its loop reaches the mailbox only after started() returned
    started_done = {}
    for c in subs:
        n = int(c[3:]) + 1
        owner = None
        seen_start = False
        for i, e in enumerate(tr):
            if e[0] == 'sched':
                owner = e[1]
            if e[0] == 'user_call' and e[1] == 'started' and e[3] == c:
                seen_start = True
            if seen_start and owner == f"loopS{n}" and e[0] in ('chan_pop',) :
                started_done.setdefault(c, i)
        # fallback: the broker handled its Subscribe
    quiescent = status == 'quiescent'
    for p in pubs:
        pid = p['arg'] if p['kind'] == 'publish' else None
        if p['kind'] == 'ctx_publish':
            pid = p['arg']
        else:
            script_op = spec['scripts'][p['client']][p['pc']]
            pid = script_op[1] if p['kind'] == 'publish' else script_op[2]
        for c in allsubs:
            got = [i for (b, i) in deliv.get(c, []) if b == pid]
            if len(got) > 1:
                v.append(f"publication {pid} was delivered {len(got)} times to {c}")
            if c not in subs and got:
                v.append(f"publication {pid} reached {c}, which never subscribed")
            if c in subs and quiescent and p['end'] is not None and str(p['result']).startswith('Ok'):
                sd = started_done.get(c)
                alive = c not in term
                unsub = unsub_done.get(c)
                if sd is not None and sd < p['begin'] and alive and unsub is None and not got:
                    v.append(f"publication {pid} never reached {c} although its subscription had completed before the publish began")
        if p['end'] is not None and not str(p['result']).startswith('Ok') and quiescent:
            v.append(f"publish({pid}) failed: {p['result']}")
    # one common order: any two publications seen by two subscribers appear in the same relative order
    seqs = {c: [b for (b, i) in d] for c, d in deliv.items()}
    cs = sorted(seqs)
    for a in range(len(cs)):
        for b in range(a + 1, len(cs)):
            sa, sb = seqs[cs[a]], seqs[cs[b]]
            common = [x for x in sa if x in sb]
            common_b = [x for x in sb if x in sa]
            if common != common_b:
                v.append(f"subscribers {cs[a]} and {cs[b]} saw the topic in different orders: {sa} vs {sb}")
    # publisher order: publications of one client appear in program order at every subscriber
    for cl in spec['scripts']:
        mine = [(spec['scripts'][cl][o['pc']][1] if o['kind'] == 'publish' else spec['scripts'][cl][o['pc']][2]) for o in sorted(pubs, key=lambda o: o['pc']) if o['client'] == cl and o['kind'] != 'ctx_publish']
        for c, s in seqs.items():
            got = [x for x in s if x in mine]
            if got != [x for x in mine if x in got]:
                v.append(f"subscriber {c} saw {cl}'s publications out of order: {got} vs {mine}")
    return v
