"""Models of the library types hannibal is built on (alloc::sync::Arc/Weak, Box, futures mpsc / oneshot / Shared /
abortable / SinkExt::send, Vec, HashMap, Option/Result combinators, dyn-clone, async-lock, TypeId ...) for the
whole-system scenarios.  Each model object lives in `st.objs` as an immutable VAgg whose `extra` dict holds the model
state, so forking a state is a shallow copy.

Semantics follow the documented contracts of the crates (futures-channel 0.3.31: capacity = buffer + one slot per
sender, FIFO park queue, close on last sender / receiver drop; oneshot: cancel on either drop; Shared: completes only
by being polled, `peek` sees completed results only).  They are the trusted base of the system-level checks and are
validated by differential tests against the real crates (see tests/model_diff).
"""
import re
import z3

from engine import (Engine, State, VSym, VAgg, VScalar, VRef, VConst, UNIT, Unsupported, strip_generics, _describe,
                    _callee_short)
import models
from models import R, _target_of_pin, _load, _store, peel, closure_body_of

NONE = VAgg(name='Option', vname='None', disc=0)
TOMB = VAgg(name='<moved>')
PENDING = VAgg(name='Poll', vname='Pending', disc=1)


def some(v):
    return VAgg(name='Option', vname='Some', disc=1, fields={('v', 'Some', 0): v})


def ok(v):
    return VAgg(name='Result', vname='Ok', disc=0, fields={('v', 'Ok', 0): v})


def err(v):
    return VAgg(name='Result', vname='Err', disc=1, fields={('v', 'Err', 0): v})


def ready(v):
    return VAgg(name='Poll', vname='Ready', disc=0, fields={('v', 'Ready', 0): v})


def mobj(st, kind, **kw):
    """allocate a model object"""
    oid = st.alloc(VAgg(name='model:' + kind, extra=dict(kw)))
    return oid


def touch(st, oid, write=False):
    fp = st.meta.get('fp')
    if fp is not None:
        st.meta['fp'] = fp | {(oid, write)}


def mget(st, oid):
    touch(st, oid, False)
    return st.objs[oid].extra


def mset(st, oid, **kw):
    o = st.objs[oid]
    ex = dict(o.extra)
    ex.update(kw)
    ex['ver'] = ex.get('ver', 0) + 1
    st.objs[oid] = VAgg(name=o.name, fields=o.fields, extra=ex)
    touch(st, oid, True)
    # anything blocked on this object becomes runnable
    st.meta['touched'] = st.meta.get('touched', frozenset()) | {oid}


def handle(kind, oid, **kw):
    """a value that refers to a model object (Arc, Sender, ...)"""
    ex = {'oid': oid}
    ex.update(kw)
    return VAgg(name=kind, extra=ex)


def is_h(v, kind=None):
    return isinstance(v, VAgg) and v.extra is not None and 'oid' in v.extra and (kind is None or v.name == kind)


def deref_arg(e, st, v):
    """value behind a (possibly nested) reference argument"""
    for _ in range(6):
        if isinstance(v, VRef):
            v = _load(e, st, v)
        else:
            break
    return v


def block_on(st, oid):
    st.meta['blocked_on'] = st.meta.get('blocked_on', frozenset()) | {oid}


# =========================================================================== Arc / Weak / Box
def m_arc_new(e, st, fr, t, args):
    oid = st.alloc(VAgg(name='ArcInner', fields={('f', 0): args[0]}, extra={'strong': 1, 'weak': 0, 'id': st.next_oid}))
    st.event('arc_new', oid, _describe(args[0])[:60])
    return handle('Arc', oid)


def arc_inner(st, h):
    touch(st, h.extra['oid'], False)
    return st.objs[h.extra['oid']]


def _arc_set(st, oid, **kw):
    o = st.objs[oid]
    ex = dict(o.extra)
    ex.update(kw)
    st.objs[oid] = VAgg(name=o.name, fields=o.fields, extra=ex)
    touch(st, oid, True)
    st.meta['touched'] = st.meta.get('touched', frozenset()) | {oid}


def m_arc_clone(e, st, fr, t, args):
    a = deref_arg(e, st, args[0])
    if not is_h(a, 'Arc'):
        import os
        if os.environ.get('MIRSE_DEBUG'):
            print('DEBUG arc_clone arg', args[0], '->', a, 'in', fr.fn.name, t.text[:120])
        return NotImplemented
    inner = arc_inner(st, a)
    if inner.extra['strong'] <= 0:
        raise Unsupported("clone of dead Arc")
    _arc_set(st, a.extra['oid'], strong=inner.extra['strong'] + 1)
    return a


def m_arc_downgrade(e, st, fr, t, args):
    a = deref_arg(e, st, args[0])
    if not is_h(a, 'Arc'):
        return NotImplemented
    inner = arc_inner(st, a)
    _arc_set(st, a.extra['oid'], weak=inner.extra['weak'] + 1)
    return handle('Weak', a.extra['oid'])


def m_weak_upgrade(e, st, fr, t, args):
    w = deref_arg(e, st, args[0])
    if not is_h(w, 'Weak'):
        return NotImplemented
    inner = arc_inner(st, w)
    if inner.extra['strong'] > 0:
        _arc_set(st, w.extra['oid'], strong=inner.extra['strong'] + 1)
        return some(handle('Arc', w.extra['oid']))
    return NONE


def m_strong_count(e, st, fr, t, args):
    h = deref_arg(e, st, args[0])
    if not (is_h(h, 'Weak') or is_h(h, 'Arc')):
        return NotImplemented
    return VScalar(arc_inner(st, h).extra['strong'])


def m_weak_count(e, st, fr, t, args):
    h = deref_arg(e, st, args[0])
    if not (is_h(h, 'Weak') or is_h(h, 'Arc')):
        return NotImplemented
    inner = arc_inner(st, h)
    return VScalar(inner.extra['weak'] if inner.extra['strong'] > 0 else 0)


def m_ptr_eq(e, st, fr, t, args):
    a, b = deref_arg(e, st, args[0]), deref_arg(e, st, args[1])
    if not (isinstance(a, VAgg) and isinstance(b, VAgg) and a.extra and b.extra and 'oid' in a.extra and 'oid' in b.extra):
        return NotImplemented
    return VScalar(a.extra['oid'] == b.extra['oid'])


def m_weak_clone(e, st, fr, t, args):
    w = deref_arg(e, st, args[0])
    if not is_h(w, 'Weak'):
        return NotImplemented
    inner = arc_inner(st, w)
    _arc_set(st, w.extra['oid'], weak=inner.extra['weak'] + 1)
    return w


def m_arc_deref(e, st, fr, t, args):
    a = deref_arg(e, st, args[0])
    if is_h(a, 'Arc'):
        return VRef(('obj', a.extra['oid']), (('f', 0),), False)
    if isinstance(a, VAgg) and a.name == 'Box' and ('f', 0) in a.fields:
        return a.fields[('f', 0)]
    return NotImplemented


def m_box_new(e, st, fr, t, args):
    oid = st.alloc(args[0])
    return VAgg(name='Box', fields={('f', 0): VRef(('obj', oid), (), True)})


def m_box_pin(e, st, fr, t, args):
    return VAgg(name='Pin', fields={('f', 0): m_box_new(e, st, fr, t, args)})


# =========================================================================== structural drop
class Dropper:
    """drop glue: what happens when a value goes out of scope.  Returns nothing; may push frames for hannibal's own
    `Drop` impls (handled by the caller through `pending`)."""

    def __init__(self, eng, resolver):
        self.eng = eng
        self.resolver = resolver
        self.drop_impls = {}
        for f in eng.functions:
            if f.name.endswith('::drop') and f.nargs == 1:
                info = resolver.impl_of(f)
                if info and info.trait and info.trait.split('<')[0].strip() == 'Drop':
                    from resolver import base_name
                    self.drop_impls[base_name(info.selfty)] = f

    def drop(self, st, v, why=''):
        e = self.eng
        if v is None or v is TOMB:
            return
        if isinstance(v, (VScalar, VConst, VRef)):
            return
        if isinstance(v, VSym):
            return
        if not isinstance(v, VAgg):
            return
        n = v.name or ''
        if n == '<moved>':
            return
        if n == 'leaf' and v.extra and v.extra.get('kind') in ('handle', 'stream', 'started', 'stopped', 'finished') and v.extra.get('pend') and not v.extra.get('done'):
            # a user callback future that was polled but never completed is dropped: the callback is abandoned
            st.event('user_abandoned', v.extra['kind'], v.extra.get('n'), v.extra.get('actor'), why[:40])
        if n == 'Arc':
            oid = v.extra['oid']
            inner = st.objs[oid]
            s = inner.extra['strong'] - 1
            _arc_set(st, oid, strong=s)
            if s == 0:
                st.event('arc_dead', oid)
                val = inner.fields.get(('f', 0))
                st.objs[oid] = VAgg(name='ArcInner', fields={('f', 0): TOMB}, extra=st.objs[oid].extra)
                self.drop(st, val, why)
            elif s < 0:
                raise Unsupported("Arc strong count below zero (double drop in the model)")
            return
        if n == 'Weak':
            oid = v.extra['oid']
            inner = st.objs[oid]
            _arc_set(st, oid, weak=inner.extra['weak'] - 1)
            return
        if n in ('Box', 'Pin') and ('f', 0) in v.fields:
            inner = v.fields[('f', 0)]
            if isinstance(inner, VRef) and inner.root[0] == 'obj' and n == 'Box':
                val = st.objs.get(inner.root[1])
                st.objs[inner.root[1]] = TOMB
                self.drop(st, val, why)
            else:
                self.drop(st, inner, why)
            return
        if n in DROP_MODELS:
            DROP_MODELS[n](self, st, v, why)
            return
        if n.startswith('model:'):
            return
        # hannibal types with their own Drop impl: run the MIR body first, then the fields
        from resolver import base_name
        impl = self.drop_impls.get(base_name(n)) if re.fullmatch(r'[A-Za-z_:<>, ]+', n) else None
        if impl is not None and hasattr(e, 'sys') and not getattr(self, '_in_impl', False):
            v = e.sys.run_drop_impl(st, v, impl)
            if not isinstance(v, VAgg):
                return
        for k, f in sorted(v.fields.items(), key=lambda kv: str(kv[0])):
            self.drop(st, f, why)


DROP_MODELS = {}


# =========================================================================== futures::channel::mpsc
def m_mpsc_channel(e, st, fr, t, args):
    buf = e.concrete_int(st, args[0])
    if buf is None:
        buf = e.as_int_expr(args[0])
    oid = mobj(st, 'chan', bounded=True, buffer=buf, queue=(), open=True, senders=1, parked=(), rx_alive=True)
    st.event('chan_new', oid, 'bounded', buf)
    tx = handle('mpsc::Sender', oid, sid=_new_sender_slot(st, oid))
    return VAgg(name='tuple', fields={('f', 0): tx, ('f', 1): handle('mpsc::Receiver', oid)})


def m_mpsc_unbounded(e, st, fr, t, args):
    oid = mobj(st, 'chan', bounded=False, buffer=None, queue=(), open=True, senders=1, parked=(), rx_alive=True)
    st.event('chan_new', oid, 'unbounded')
    return VAgg(name='tuple', fields={('f', 0): handle('mpsc::UnboundedSender', oid), ('f', 1): handle('mpsc::UnboundedReceiver', oid)})


def _new_sender_slot(st, chan):
    """per-sender park state (futures: each Sender clone owns a `sender_task` + `maybe_parked`)"""
    return mobj(st, 'sender_slot', chan=chan, parked=False, maybe_parked=False)


def m_sender_clone(e, st, fr, t, args):
    s = deref_arg(e, st, args[0])
    if is_h(s, 'mpsc::Sender'):
        c = mget(st, s.extra['oid'])
        mset(st, s.extra['oid'], senders=c['senders'] + 1)
        return handle('mpsc::Sender', s.extra['oid'], sid=_new_sender_slot(st, s.extra['oid']))
    if is_h(s, 'mpsc::UnboundedSender'):
        c = mget(st, s.extra['oid'])
        mset(st, s.extra['oid'], senders=c['senders'] + 1)
        return handle('mpsc::UnboundedSender', s.extra['oid'])
    return NotImplemented


def _drop_sender(d, st, v, why):
    c = mget(st, v.extra['oid'])
    n = c['senders'] - 1
    mset(st, v.extra['oid'], senders=n, **({'open': False} if n == 0 else {}))
    if n == 0:
        st.event('chan_all_senders_gone', v.extra['oid'])


def _drop_receiver(d, st, v, why):
    c = mget(st, v.extra['oid'])
    q = c['queue']
    # close, unpark everybody, drain
    for sid in c['parked']:
        mset(st, sid, parked=False)
    mset(st, v.extra['oid'], open=False, rx_alive=False, queue=(), parked=())
    st.event('chan_receiver_dropped', v.extra['oid'], len(q))
    for item in q:
        d.drop(st, item, 'mailbox drained at receiver drop')


DROP_MODELS['mpsc::Sender'] = _drop_sender
DROP_MODELS['mpsc::UnboundedSender'] = _drop_sender
DROP_MODELS['mpsc::Receiver'] = _drop_receiver
DROP_MODELS['mpsc::UnboundedReceiver'] = _drop_receiver


def _send_error(kind):
    return VAgg(name='SendError', fields={}, extra={'kind': kind})


def chan_poll_unparked(st, s):
    slot = mget(st, s.extra['sid'])
    if slot['maybe_parked']:
        if not slot['parked']:
            mset(st, s.extra['sid'], maybe_parked=False)
            return True
        return False
    return True


def decide(e, st, cond):
    """cond: python bool or z3 Bool. returns [(state, bool)] (forks decided by the solver)"""
    if isinstance(cond, bool):
        return [(st, cond)]
    c = z3.simplify(cond)
    if z3.is_true(c):
        return [(st, True)]
    if z3.is_false(c):
        return [(st, False)]
    out = []
    t = e.feasible(st, c)
    f = e.feasible(st, z3.Not(c))
    if t and f:
        s2 = st.clone()
        s2.pc.append(z3.Not(c))
        s2.choices.append((str(c), False))
        st.pc.append(c)
        st.choices.append((str(c), True))
        return [(st, True), (s2, False)]
    if t:
        st.pc.append(c)
        return [(st, True)]
    if f:
        st.pc.append(z3.Not(c))
        return [(st, False)]
    return []


def chan_try_send(e, st, s, msg):
    """futures-channel BoundedSenderInner::try_send / UnboundedSender::do_send_nb.
    returns [(state, None | error kind)] - the capacity may be symbolic (decided by z3)"""
    c = mget(st, s.extra['oid'])
    if s.name == 'mpsc::Sender':
        if not chan_poll_unparked(st, s):
            return [(st, 'full')]
        c = mget(st, s.extra['oid'])
        if not c['open']:
            return [(st, 'disconnected')]
        n = len(c['queue']) + 1
        out = []
        for s2, over in decide(e, st, n > c['buffer']):
            c2 = mget(s2, s.extra['oid'])
            parked = c2['parked']
            if over:
                mset(s2, s.extra['sid'], parked=True, maybe_parked=True)
                parked = parked + (s.extra['sid'],)
            mset(s2, s.extra['oid'], queue=c2['queue'] + (msg,), parked=parked)
            out.append((s2, None))
        return out
    if not c['open']:
        return [(st, 'disconnected')]
    mset(st, s.extra['oid'], queue=c['queue'] + (msg,))
    return [(st, None)]


def m_start_send(e, st, fr, t, args):
    sref = args[0]
    s = deref_arg(e, st, sref)
    if not (is_h(s, 'mpsc::Sender') or is_h(s, 'mpsc::UnboundedSender')):
        return NotImplemented
    outs = []
    for s2, r in chan_try_send(e, st, s, args[1]):
        s2.event('chan_push', s.extra['oid'], 'force', r or 'ok', _payload_desc(args[1]))
        if r is None:
            val = ok(UNIT)
        else:
            e.dropper.drop(s2, args[1], 'start_send failed')
            val = err(_send_error(r))
        f2 = s2.frames[-1]
        e.write_place(s2, f2, t.dest, val)
        f2.bb = t.target
        outs.append(s2)
    return outs


def m_try_send(e, st, fr, t, args):
    """Sender::try_send: like start_send, the error is a TrySendError (kind + the message handed back)"""
    sref = args[0]
    s = deref_arg(e, st, sref)
    if not (is_h(s, 'mpsc::Sender') or is_h(s, 'mpsc::UnboundedSender')):
        return NotImplemented
    outs = []
    for s2, r in chan_try_send(e, st, s, args[1]):
        s2.event('chan_push', s.extra['oid'], 'force', r or 'ok', _payload_desc(args[1]))
        if r is None:
            val = ok(UNIT)
        else:
            val = err(VAgg(name='TrySendError', fields={('f', 0): _send_error(r), ('f', 1): args[1]}))
        f2 = s2.frames[-1]
        e.write_place(s2, f2, t.dest, val)
        f2.bb = t.target
        outs.append(s2)
    return outs


def m_into_send_error(e, st, fr, t, args):
    x = args[0]
    if not (isinstance(x, VAgg) and x.name == 'TrySendError'):
        return NotImplemented
    e.dropper.drop(st, x.fields[('f', 1)], 'message handed back by try_send is dropped')
    return x.fields[('f', 0)]


# ---- std::sync::Mutex (never contended here: tasks do not yield while they hold a std guard)
def m_std_mutex_new(e, st, fr, t, args):
    if not t.func.startswith('std::sync::'):
        return NotImplemented          # (async_lock::Mutex has its own model)
    return VAgg(name='StdMutex', fields={('f', 0): args[0]})


def m_std_mutex_lock(e, st, fr, t, args):
    if not t.func.startswith('std::sync::'):
        return NotImplemented
    ref = peel(e, st, args[0])
    m = _load(e, st, ref)
    if not (isinstance(m, VAgg) and m.name == 'StdMutex'):
        return NotImplemented
    return ok(VAgg(name='StdMutexGuard', fields={('f', 0): VRef(ref.root, ref.path + (('f', 0),), True)}))


def m_std_guard_deref(e, st, fr, t, args):
    g = deref_arg(e, st, args[0])
    if not (isinstance(g, VAgg) and g.name == 'StdMutexGuard'):
        return NotImplemented
    return g.fields[('f', 0)]


def m_unbounded_len(e, st, fr, t, args):
    s = deref_arg(e, st, args[0])
    return VScalar(len(mget(st, s.extra['oid'])['queue']))


def _payload_desc(v):
    if isinstance(v, VAgg) and v.name == 'Payload':
        if v.vname == 'Task':
            b = v.fields.get(('v', 'Task', 0))
            return 'Task:' + _describe(b)[-40:]
        return v.vname
    return _describe(v)[:40]


def m_sink_send(e, st, fr, t, args):
    """SinkExt::send(&mut tx, item) -> Send future (feed, then flush)"""
    return VAgg(name='sink::Send', fields={('f', 0): args[0], ('f', 1): some(args[1])}, extra={})


def poll_sink_send(e, st, ref, fut):
    """futures-util Send::poll: if item: ready!(poll_ready); start_send(item)?; then ready!(poll_flush)"""
    txref = fut.fields[('f', 0)]
    s = deref_arg(e, st, txref)
    item = fut.fields[('f', 1)]
    c = mget(st, s.extra['oid'])
    if item.vname == 'Some':
        msg = item.fields[('v', 'Some', 0)]
        if s.name == 'mpsc::Sender':
            # poll_ready: closed -> Err(disconnected); parked -> Pending
            if not c['open']:
                _store(e, st, ref, VAgg(name='sink::Send', fields={('f', 0): txref, ('f', 1): NONE}, extra={}))
                e.dropper.drop(st, msg, 'send on closed channel')
                st.event('chan_push', s.extra['oid'], 'wait', 'disconnected', _payload_desc(msg))
                return [(st, ready(err(_send_error('disconnected'))))]
            if not chan_poll_unparked(st, s):
                block_on(st, s.extra['sid'])
                return [(st, PENDING)]
        else:
            if not c['open']:
                _store(e, st, ref, VAgg(name='sink::Send', fields={('f', 0): txref, ('f', 1): NONE}, extra={}))
                e.dropper.drop(st, msg, 'send on closed channel')
                st.event('chan_push', s.extra['oid'], 'wait', 'disconnected', _payload_desc(msg))
                return [(st, ready(err(_send_error('disconnected'))))]
        res = []
        for s2, r in chan_try_send(e, st, s, msg):
            s2.event('chan_push', s.extra['oid'], 'wait', r or 'ok', _payload_desc(msg))
            _store(e, s2, ref, VAgg(name='sink::Send', fields={('f', 0): txref, ('f', 1): NONE}, extra={}))
            if r is not None:
                e.dropper.drop(s2, msg, 'send failed')
                res.append((s2, ready(err(_send_error(r)))))
            else:
                res.append((s2, _sink_flush(e, s2, s)))
        return res
    return [(st, _sink_flush(e, st, s))]


def _sink_flush(e, st, s):
    if s.name == 'mpsc::Sender':
        c = mget(st, s.extra['oid'])
        if not c['open']:
            return ready(ok(UNIT))        # disconnected counts as flushed
        if not chan_poll_unparked(st, s):
            block_on(st, s.extra['sid'])
            return PENDING
    return ready(ok(UNIT))


def m_rx_poll_next(e, st, fr, t, args):
    rref = peel(e, st, args[0])
    r = _load(e, st, rref)
    if not (is_h(r, 'mpsc::Receiver') or is_h(r, 'mpsc::UnboundedReceiver')):
        return NotImplemented
    c = mget(st, r.extra['oid'])
    if c['queue']:
        msg = c['queue'][0]
        parked = c['parked']
        if c['bounded'] and parked:
            mset(st, parked[0], parked=False)       # unpark_one
            parked = parked[1:]
        mset(st, r.extra['oid'], queue=c['queue'][1:], parked=parked)
        st.event('chan_pop', r.extra['oid'], _payload_desc(msg))
        return ready(some(msg))
    if not c['open']:
        st.event('chan_pop', r.extra['oid'], 'closed')
        return ready(NONE)
    block_on(st, r.extra['oid'])
    return PENDING


def m_rx_close(e, st, fr, t, args):
    """Receiver::close / UnboundedReceiver::close: no further message is accepted, every parked sender is woken, what is
    queued can still be received"""
    rref = peel(e, st, args[0])
    r = _load(e, st, rref)
    if not (is_h(r, 'mpsc::Receiver') or is_h(r, 'mpsc::UnboundedReceiver')):
        return NotImplemented
    c = mget(st, r.extra['oid'])
    for sid in c['parked']:
        mset(st, sid, parked=False)
    mset(st, r.extra['oid'], open=False, parked=())
    st.event('chan_closed_by_receiver', r.extra['oid'], len(c['queue']))
    return UNIT


# ---- stream adapters over the receiver: rx.ready_chunks(k).flat_map(stream::iter) (prefetching mailboxes)
def m_ready_chunks(e, st, fr, t, args):
    cap = e.as_int_expr(args[1])
    if not isinstance(cap, int):
        cap = e.concrete_int(st, args[1]) if hasattr(e, 'concrete_int') else None
    if cap is None:
        raise Unsupported("ready_chunks with a symbolic capacity")
    return VAgg(name='ReadyChunks', fields={('f', 0): args[0]}, extra={'cap': cap})


def m_flat_map_iter(e, st, fr, t, args):
    f = args[1]
    if not (isinstance(f, VConst) and re.search(r'(^|::)iter::<', f.text)):
        raise Unsupported(f"flat_map with {f!r}")
    return VAgg(name='FlatMapIter', fields={('f', 0): args[0]}, extra={'buf': ()})


def m_flat_map_poll_next(e, st, fr, t, args):
    ref = peel(e, st, args[0])
    fm = _load(e, st, ref)
    if not (isinstance(fm, VAgg) and fm.name == 'FlatMapIter'):
        return NotImplemented
    buf = fm.extra['buf']
    if not buf:
        rcref = VRef(ref.root, ref.path + (('f', 0),), True)
        rc = _load(e, st, rcref)
        if not (isinstance(rc, VAgg) and rc.name == 'ReadyChunks'):
            raise Unsupported(f"flat_map over {rc!r}")
        rxref = VRef(rcref.root, rcref.path + (('f', 0),), True)
        items = []
        ended = False
        # ReadyChunks::poll_next: take items while the inner stream is ready, up to cap
        while len(items) < max(1, rc.extra['cap']):
            pv = m_rx_poll_next(e, st, fr, t, [rxref, args[1]])
            if pv is NotImplemented:
                raise Unsupported("ready_chunks over an unmodelled stream")
            if pv.vname != 'Ready':
                break
            opt = pv.fields[('v', 'Ready', 0)]
            if opt.vname == 'None':
                ended = True
                break
            items.append(opt.fields[('v', 'Some', 0)])
        if not items:
            return ready(NONE) if ended else PENDING
        buf = tuple(items)
        st.event('chunk_prefetched', len(buf))
    x, rest = buf[0], buf[1:]
    _store(e, st, ref, VAgg(name='FlatMapIter', fields=fm.fields, extra={'buf': rest}))
    return ready(some(x))


# =========================================================================== futures::channel::oneshot
def m_oneshot_channel(e, st, fr, t, args):
    oid = mobj(st, 'oneshot', data=None, tx_gone=False, rx_gone=False)
    return VAgg(name='tuple', fields={('f', 0): handle('oneshot::Sender', oid), ('f', 1): handle('oneshot::Receiver', oid)})


def m_oneshot_send(e, st, fr, t, args):
    s = args[0]
    if not is_h(s, 'oneshot::Sender'):
        return NotImplemented
    c = mget(st, s.extra['oid'])
    if c['rx_gone']:
        mset(st, s.extra['oid'], tx_gone=True)
        st.event('oneshot_send', s.extra['oid'], 'receiver_gone')
        return err(args[1])
    mset(st, s.extra['oid'], data=args[1], tx_gone=True)
    st.event('oneshot_send', s.extra['oid'], 'ok', _describe(args[1])[:50])
    return ok(UNIT)


def _drop_oneshot_tx(d, st, v, why):
    c = mget(st, v.extra['oid'])
    if not c['tx_gone']:
        mset(st, v.extra['oid'], tx_gone=True)
        st.event('oneshot_sender_dropped', v.extra['oid'])


def _drop_oneshot_rx(d, st, v, why):
    c = mget(st, v.extra['oid'])
    data = c['data']
    mset(st, v.extra['oid'], rx_gone=True, data=None)
    if data is not None:
        d.drop(st, data, 'unreceived oneshot value')


DROP_MODELS['oneshot::Sender'] = _drop_oneshot_tx
DROP_MODELS['oneshot::Receiver'] = _drop_oneshot_rx


def poll_oneshot_rx(e, st, ref, fut):
    c = mget(st, fut.extra['oid'])
    if c['data'] is not None:
        v = c['data']
        mset(st, fut.extra['oid'], data=None)
        return [(st, ready(ok(v)))]
    if c['tx_gone']:
        return [(st, ready(err(VAgg(name='Canceled'))))]
    block_on(st, fut.extra['oid'])
    return [(st, PENDING)]


# =========================================================================== futures::future::Shared
def m_shared(e, st, fr, t, args):
    oid = mobj(st, 'shared', inner=args[0], output=None, refs=1)
    return handle('Shared', oid)


def m_shared_clone(e, st, fr, t, args):
    s = deref_arg(e, st, args[0])
    if not is_h(s, 'Shared'):
        return NotImplemented
    c = mget(st, s.extra['oid'])
    mset(st, s.extra['oid'], refs=c['refs'] + 1)
    return s


def m_shared_peek(e, st, fr, t, args):
    s = deref_arg(e, st, args[0])
    if not is_h(s, 'Shared'):
        return NotImplemented
    c = mget(st, s.extra['oid'])
    if s.extra.get('consumed'):
        # this instance has already yielded its output (Shared::inner is None): peek sees nothing
        st.event('shared_peek', s.extra['oid'], 'consumed')
        return NONE
    st.event('shared_peek', s.extra['oid'], 'complete' if c['output'] is not None else 'incomplete')
    if c['output'] is not None:
        return some(VRef(('obj', s.extra['oid']), (), False))
    return NONE


def m_shared_is_terminated(e, st, fr, t, args):
    s = deref_arg(e, st, args[0])
    if not is_h(s, 'Shared'):
        return NotImplemented
    return VScalar(bool(s.extra.get('consumed')))


def _shared_consume(e, st, ref, fut):
    """a Shared instance that returned Ready has given up its inner Arc: it (and every clone made of it from now on)
    panics when polled again"""
    if ref is not None:
        ex = dict(fut.extra)
        ex['consumed'] = True
        try:
            _store(e, st, ref, VAgg(name='Shared', extra=ex))
        except Unsupported:
            pass


def poll_shared(e, st, ref, fut):
    c = mget(st, fut.extra['oid'])
    if fut.extra.get('consumed'):
        st.event('panic', 'explicit', 'Shared future polled again after completion')
        st.meta['panic_now'] = True
        return [(st, PENDING)]
    if c['output'] is not None:
        _shared_consume(e, st, ref, fut)
        return [(st, ready(c['output']))]
    inner = c['inner']
    # poll the inner future (a oneshot receiver)
    if not is_h(inner, 'oneshot::Receiver'):
        raise Unsupported(f"Shared over {inner!r}")
    outs = poll_oneshot_rx(e, st, None, inner)
    res = []
    for s2, pv in outs:
        if pv.vname == 'Ready':
            mset(s2, fut.extra['oid'], output=pv.fields[('v', 'Ready', 0)])
            st.event('shared_complete', fut.extra['oid'])
            _shared_consume(e, s2, ref, fut)
        else:
            block_on(s2, inner.extra['oid'])
        res.append((s2, pv))
    return res


def _drop_shared(d, st, v, why):
    c = mget(st, v.extra['oid'])
    n = c['refs'] - 1
    mset(st, v.extra['oid'], refs=n)
    if n == 0 and c['inner'] is not None:
        d.drop(st, c['inner'], 'last Shared clone dropped')


DROP_MODELS['Shared'] = _drop_shared
DROP_MODELS['JoinHandle'] = lambda d, st, v, why: None      # tokio: dropping the handle detaches
DROP_MODELS['AsyncJoinHandle'] = lambda d, st, v, why: None  # async-std: dropping the handle detaches
DROP_MODELS['SmolTask'] = lambda d, st, v, why: d.eng.sys.cancel_task(st, v.extra['task'], 'smol::Task dropped without detach()')
DROP_MODELS['AbortHandle'] = lambda d, st, v, why: None
DROP_MODELS['Abortable'] = lambda d, st, v, why: d.drop(st, v.fields.get(('f', 0)), why)


# =========================================================================== async_lock::Mutex / RwLock
def m_mutex_new(e, st, fr, t, args):
    oid = st.alloc(VAgg(name='model:lock', fields={('f', 0): args[0]}, extra={'writer': False, 'readers': 0, 'ver': 0}))
    return handle('AsyncLock', oid)


def _lock_obj(e, st, v):
    v = deref_arg(e, st, v)
    if is_h(v, 'Arc'):
        v = st.objs[v.extra['oid']].fields[('f', 0)]
    if not is_h(v, 'AsyncLock'):
        return None
    return v


def m_lock_acquire(kind):
    def h(e, st, fr, t, args):
        l = _lock_obj(e, st, args[0])
        if l is None:
            return NotImplemented
        return VAgg(name='LockFuture', extra={'oid': l.extra['oid'], 'kind': kind})
    return h


def poll_lock_future(e, st, ref, fut):
    oid = fut.extra['oid']
    c = mget(st, oid)
    kind = fut.extra['kind']
    free = (not c['writer']) and (kind == 'read' or c['readers'] == 0)
    if free:
        if kind == 'read':
            mset(st, oid, readers=c['readers'] + 1)
        else:
            mset(st, oid, writer=True)
        st.event('lock_acquired', oid, kind)
        return [(st, ready(VAgg(name='LockGuard', extra={'oid': oid, 'kind': kind})))]
    block_on(st, oid)
    return [(st, PENDING)]


def m_try_lock(kind):
    def h(e, st, fr, t, args):
        l = _lock_obj(e, st, args[0])
        if l is None:
            return NotImplemented
        oid = l.extra['oid']
        c = mget(st, oid)
        free = (not c['writer']) and (kind == 'read' or c['readers'] == 0)
        if not free:
            st.event('try_lock_failed', oid, kind)
            return NONE
        if kind == 'read':
            mset(st, oid, readers=c['readers'] + 1)
        else:
            mset(st, oid, writer=True)
        st.event('lock_acquired', oid, kind)
        return some(VAgg(name='LockGuard', extra={'oid': oid, 'kind': kind}))
    return h


def m_guard_deref(e, st, fr, t, args):
    g = deref_arg(e, st, args[0])
    if not (isinstance(g, VAgg) and g.name == 'LockGuard'):
        return NotImplemented
    return VRef(('obj', g.extra['oid']), (('f', 0),), g.extra['kind'] != 'read')


def _drop_guard(d, st, v, why):
    c = mget(st, v.extra['oid'])
    if v.extra['kind'] == 'read':
        mset(st, v.extra['oid'], readers=c['readers'] - 1)
    else:
        mset(st, v.extra['oid'], writer=False)
    st.event('lock_released', v.extra['oid'], v.extra['kind'])


DROP_MODELS['LockGuard'] = _drop_guard
DROP_MODELS['AsyncLock'] = lambda d, st, v, why: d.drop(st, st.objs[v.extra['oid']].fields.get(('f', 0)), why)
DROP_MODELS['LockFuture'] = lambda d, st, v, why: None


# =========================================================================== abortable
def m_abortable(e, st, fr, t, args):
    oid = mobj(st, 'abort', aborted=False)
    st.event('abortable_new', oid)
    fut = VAgg(name='Abortable', fields={('f', 0): args[0]}, extra={'oid': oid})
    return VAgg(name='tuple', fields={('f', 0): fut, ('f', 1): handle('AbortHandle', oid)})


def m_abort(e, st, fr, t, args):
    h = deref_arg(e, st, args[0])
    if not is_h(h, 'AbortHandle'):
        return NotImplemented
    mset(st, h.extra['oid'], aborted=True)
    st.event('abort', h.extra['oid'])
    return UNIT


# =========================================================================== Vec (small, concrete length)
def m_vec_new(e, st, fr, t, args):
    return VAgg(name='Vec', extra={'items': ()})


def m_vec_push(e, st, fr, t, args):
    ref = _target_of_pin(e, st, args[0])
    v = _load(e, st, ref)
    if not (isinstance(v, VAgg) and v.name == 'Vec'):
        return NotImplemented
    _store(e, st, ref, VAgg(name='Vec', extra={'items': v.extra['items'] + (args[1],)}))
    return UNIT


def m_vec_drain_all(e, st, fr, t, args):
    ref = _target_of_pin(e, st, args[0])
    v = _load(e, st, ref)
    if not (isinstance(v, VAgg) and v.name == 'Vec'):
        return NotImplemented
    _store(e, st, ref, VAgg(name='Vec', extra={'items': ()}))
    return VAgg(name='VecIter', extra={'items': v.extra['items'], 'idx': 0, 'owning': True})


def m_veciter_next(e, st, fr, t, args):
    ref = _target_of_pin(e, st, args[0])
    it = _load(e, st, ref)
    if not (isinstance(it, VAgg) and it.name == 'VecIter'):
        return NotImplemented
    i = it.extra['idx']
    items = it.extra['items']
    if i >= len(items):
        return NONE
    ex = dict(it.extra)
    ex['idx'] = i + 1
    _store(e, st, ref, VAgg(name='VecIter', extra=ex))
    return some(items[i])


def _drop_vec(d, st, v, why):
    for x in v.extra['items']:
        d.drop(st, x, why)


def _drop_veciter(d, st, v, why):
    if v.extra.get('owning'):
        for x in v.extra['items'][v.extra['idx']:]:
            d.drop(st, x, why)


DROP_MODELS['Vec'] = _drop_vec
DROP_MODELS['VecSnapshot'] = lambda d, st, v, why: None
DROP_MODELS['VecIter'] = _drop_veciter


# =========================================================================== Option / Result combinators
def call_fnlike(e, st, t, f, argvals, cont_tag, cont_data):
    """call a fn item / closure value with argvals; the result is delivered to the continuation registered under
    cont_tag (see Engine.do_return hook `conts`)."""
    if isinstance(f, VConst):
        fn = e.sys.resolve_fn_item(f.text)
        if fn is not None:
            st.meta['conts'] = st.meta.get('conts', []) + [(cont_tag, cont_data)]
            e.push_call(st, fn, argvals, ret_dest=None, ret_bb=-1, unwind_bb=t.unwind, tag='cont')
            return True
        # a fn item of a modelled library function (e.g. `futures_timer::Delay::new`): ask its model for the value
        import copy
        from engine import _strip_modules, _norm_rx
        t2 = copy.copy(t)
        t2.func = f.text.strip()
        norm = _strip_modules(t2.func)
        for rx, h in e.models:
            if rx.search(t2.func) or (norm != t2.func and (rx.search(norm) or _norm_rx(rx).search(norm))):
                r = h(e, st, st.frames[-1], t2, list(argvals))
                if r is NotImplemented:
                    continue
                if r is None or isinstance(r, list):
                    raise Unsupported(f"fn item {t2.func} used as a value: its model takes over control flow")
                out = e.conts[cont_tag](e, st, cont_data, r)
                if out is not None:
                    raise Unsupported(f"continuation {cont_tag} forked")
                return 'done'
    body, clo = closure_body_of(e, st, f)
    if body is not None:
        co = st.alloc(clo)
        st.meta['conts'] = st.meta.get('conts', []) + [(cont_tag, cont_data)]
        first = VRef(('obj', co), (), True) if body.arg_types[0].startswith('&') else clo
        if body.nargs == 2 and len(argvals) != 1:
            argvals = [VAgg(name='tuple', fields={('f', i): a for i, a in enumerate(argvals)})]
        e.push_call(st, body, [first] + list(argvals), ret_dest=None, ret_bb=-1, unwind_bb=t.unwind, tag='cont')
        return True
    return False


def m_option_map(e, st, fr, t, args):
    opt, f = args
    d = e.concrete_int(st, e.discriminant_of(st, opt))
    if d is None:
        raise Unsupported("Option::map on symbolic option")
    if d == 0:
        return NONE
    x = e.get_field(opt, ('v', 'Some', 0))
    # well-known fn items first
    if isinstance(f, VConst):
        r = builtin_fn_item(e, st, f.text, [x])
        if r is not NotImplemented:
            return some(r)
    if call_fnlike(e, st, t, f, [x], 'wrap_some', (t.dest, t.target)):
        return None
    raise Unsupported(f"Option::map with {f!r}")


def m_option_and_then(e, st, fr, t, args):
    opt, f = args
    d = e.concrete_int(st, e.discriminant_of(st, opt))
    if d is None:
        raise Unsupported("Option::and_then on symbolic option")
    if d == 0:
        return NONE
    x = e.get_field(opt, ('v', 'Some', 0))
    if isinstance(f, VConst):
        r = builtin_fn_item(e, st, f.text, [x])
        if r is not NotImplemented:
            return r
    if call_fnlike(e, st, t, f, [x], 'identity', (t.dest, t.target)):
        return None
    raise Unsupported(f"Option::and_then with {f!r}")


def m_option_zip(e, st, fr, t, args):
    a, b = args
    da = e.concrete_int(st, e.discriminant_of(st, a))
    db = e.concrete_int(st, e.discriminant_of(st, b))
    if da is None or db is None:
        raise Unsupported("Option::zip symbolic")
    if da == 1 and db == 1:
        return some(VAgg(name='tuple', fields={('f', 0): e.get_field(a, ('v', 'Some', 0)), ('f', 1): e.get_field(b, ('v', 'Some', 0))}))
    # the present half (if any) is dropped
    if da == 1:
        e.dropper.drop(st, e.get_field(a, ('v', 'Some', 0)), 'zip with None')
    if db == 1:
        e.dropper.drop(st, e.get_field(b, ('v', 'Some', 0)), 'zip with None')
    return NONE


def m_option_is_some(e, st, fr, t, args):
    o = deref_arg(e, st, args[0])
    d = e.discriminant_of(st, o).v
    if isinstance(d, int):
        return VScalar(d == 1)
    return VScalar(d == 1)


def m_option_is_none(e, st, fr, t, args):
    o = deref_arg(e, st, args[0])
    d = e.discriminant_of(st, o).v
    return VScalar(d == 0)


def m_option_as_ref(e, st, fr, t, args):
    ref = args[0]
    o = deref_arg(e, st, ref)
    d = e.concrete_int(st, e.discriminant_of(st, o))
    if d is None:
        raise Unsupported("Option::as_ref symbolic")
    if d == 0:
        return NONE
    tgt = _target_of_pin(e, st, ref)
    return some(VRef(tgt.root, tgt.path + (('v', 'Some', 0),), False))


def m_option_cloned_addr(e, st, fr, t, args):
    return NotImplemented


def _opt_disc(e, st, o, what):
    d = e.concrete_int(st, e.discriminant_of(st, o))
    if d is None:
        raise Unsupported(f"{what} on a symbolic Option")
    return d


def m_option_map_or(e, st, fr, t, args):
    o, default, f = args
    if _opt_disc(e, st, o, 'map_or') == 0:
        return default
    x = e.get_field(o, ('v', 'Some', 0))
    e.dropper.drop(st, default, 'unused map_or default')
    if isinstance(f, VConst):
        r = builtin_fn_item(e, st, f.text, [x])
        if r is not NotImplemented:
            return r
        try:
            from models import apply_fn_item
            return apply_fn_item(e, st, f, x)
        except Unsupported:
            pass
    if call_fnlike(e, st, t, f, [x], 'identity', (t.dest, t.target)):
        return None
    raise Unsupported(f"Option::map_or with {f!r}")


def m_option_unwrap_or(e, st, fr, t, args):
    o, default = args
    if _opt_disc(e, st, o, 'unwrap_or') == 0:
        return default
    e.dropper.drop(st, default, 'unused unwrap_or default')
    return e.get_field(o, ('v', 'Some', 0))


def m_option_is_some_and(e, st, fr, t, args):
    o, f = args
    if _opt_disc(e, st, o, 'is_some_and') == 0:
        return VScalar(False)
    x = e.get_field(o, ('v', 'Some', 0))
    if call_fnlike(e, st, t, f, [x], 'identity', (t.dest, t.target)):
        return None
    raise Unsupported(f"Option::is_some_and with {f!r}")


def m_option_filter_fn(e, st, fr, t, args):
    """Option::filter(opt, pred) where pred is a fn item (e.g. Addr::running)"""
    o, f = args
    if not isinstance(f, VConst) or '{closure' in f.text:
        return NotImplemented
    if _opt_disc(e, st, o, 'filter') == 0:
        return NONE
    x = e.get_field(o, ('v', 'Some', 0))
    xo = st.alloc(x)
    if call_fnlike(e, st, t, f, [VRef(('obj', xo), (), False)], 'filter_keep', (t.dest, t.target, xo)):
        return None
    raise Unsupported(f"Option::filter with {f!r}")


def c_filter_keep(e, st, data, rv):
    dest, target, xo = data
    b = e.as_int_expr(rv)
    if not isinstance(b, int):
        raise Unsupported("symbolic filter predicate")
    x = st.objs[xo]
    st.objs[xo] = TOMB
    f = st.frames[-1]
    if b:
        e.write_place(st, f, dest, some(x))
    else:
        e.dropper.drop(st, x, 'filtered out')
        e.write_place(st, f, dest, NONE)
    f.bb = target
    return None


def m_option_cloned(e, st, fr, t, args):
    """Option<&T>::cloned -> Option<T> through T's Clone (hannibal's impl when T is a hannibal type)"""
    o = args[0]
    if _opt_disc(e, st, o, 'cloned') == 0:
        return NONE
    x = e.get_field(o, ('v', 'Some', 0))
    m = re.match(r'^Option::<&(.*)>::cloned$', t.func, re.S)
    ty = m.group(1) if m else 'T'
    fn = e.sys.resolver.resolve(f"<{ty} as Clone>::clone")
    if fn is None:
        return some(e.sys.clone_value(st, deref_arg(e, st, x)))
    st.meta['conts'] = st.meta.get('conts', []) + [('wrap_some', (t.dest, t.target))]
    e.push_call(st, fn, [x], ret_dest=None, ret_bb=-1, unwind_bb=t.unwind, tag='cont')
    return None


def m_option_unwrap(e, st, fr, t, args):
    o = args[0]
    if _opt_disc(e, st, o, 'unwrap') == 1:
        return e.get_field(o, ('v', 'Some', 0))
    st.event('panic', 'explicit', 'unwrap on None')
    st.meta['panic_now'] = True
    return [st]


# =========================================================================== HashMap (small, concrete keys) / Any
def _key_repr(e, st, k):
    k = deref_arg(e, st, k)
    if isinstance(k, VConst):
        t = k.text
        # the single service / message type of a program is named Self, A, M ... in different generic functions
        t = re.sub(r'^TypeId:(Self|A|S|T)$', 'TypeId:ACTOR', t)
        return t
    if isinstance(k, VScalar):
        return f"int:{k.v}"
    if isinstance(k, VAgg) and k.name == 'ContextID':
        return f"ctx:{_key_repr(e, st, k.fields[('f', 0)])}"
    if isinstance(k, VSym):
        return f"sym:{k.label}"
    raise Unsupported(f"hash key {k!r}")


def m_hashmap_new(e, st, fr, t, args):
    return VAgg(name='HashMap', fields={}, extra={'keys': ()})


def _map_at(e, st, arg):
    ref = _target_of_pin(e, st, arg)
    for _ in range(4):
        v = _load(e, st, ref)
        if isinstance(v, VRef):
            ref = v
        else:
            break
    if not (isinstance(v, VAgg) and v.name == 'HashMap'):
        return None, None
    return ref, v


def m_hashmap_get(mut):
    def h(e, st, fr, t, args):
        ref, mp = _map_at(e, st, args[0])
        if mp is None:
            return NotImplemented
        k = _key_repr(e, st, args[1])
        if k in mp.extra['keys']:
            i = mp.extra['keys'].index(k)
            return some(VRef(ref.root, ref.path + (('f', i),), mut))
        return NONE
    return h


def m_hashmap_insert(e, st, fr, t, args):
    ref, mp = _map_at(e, st, args[0])
    if mp is None:
        return NotImplemented
    k = _key_repr(e, st, args[1])
    keys = mp.extra['keys']
    if k in keys:
        i = keys.index(k)
        old = mp.fields[('f', i)]
        _store(e, st, ref, VAgg(name='HashMap', fields={**mp.fields, ('f', i): args[2]}, extra=mp.extra))
        return some(old)
    i = len(keys)
    _store(e, st, ref, VAgg(name='HashMap', fields={**mp.fields, ('f', i): args[2]}, extra={'keys': keys + (k,)}))
    return NONE


def m_hashset_insert(e, st, fr, t, args):
    """HashSet<K> = the HashMap model with unit values; insert returns whether the key is new"""
    ref, mp = _map_at(e, st, args[0])
    if mp is None:
        return NotImplemented
    k = _key_repr(e, st, args[1])
    keys = mp.extra['keys']
    if k in keys:
        return VScalar(False)
    _store(e, st, ref, VAgg(name='HashMap', fields={**mp.fields, ('f', len(keys)): UNIT}, extra={'keys': keys + (k,)}))
    return VScalar(True)


def m_hashset_contains(e, st, fr, t, args):
    ref, mp = _map_at(e, st, args[0])
    if mp is None:
        return NotImplemented
    return VScalar(_key_repr(e, st, args[1]) in mp.extra['keys'])


def m_hashset_remove(e, st, fr, t, args):
    ref, mp = _map_at(e, st, args[0])
    if mp is None:
        return NotImplemented
    k = _key_repr(e, st, args[1])
    keys = mp.extra['keys']
    if k not in keys:
        return VScalar(False)
    i = keys.index(k)
    _store(e, st, ref, VAgg(name='HashMap', fields={**mp.fields, ('f', i): TOMB}, extra={'keys': keys[:i] + (None,) + keys[i + 1:]}))
    return VScalar(True)


def m_hashmap_remove(e, st, fr, t, args):
    ref, mp = _map_at(e, st, args[0])
    if mp is None:
        return NotImplemented
    k = _key_repr(e, st, args[1])
    keys = mp.extra['keys']
    if k not in keys:
        return NONE
    i = keys.index(k)
    old = mp.fields[('f', i)]
    # keep indices stable: tombstone the slot
    _store(e, st, ref, VAgg(name='HashMap', fields={**mp.fields, ('f', i): TOMB}, extra={'keys': keys[:i] + (None,) + keys[i + 1:]}))
    return some(old)


def m_hashmap_entry_or_default(e, st, fr, t, args):
    """entry(key) -> VAgg Entry; or_default() -> &mut V"""
    ref, mp = _map_at(e, st, args[0])
    if mp is None:
        return NotImplemented
    return VAgg(name='HashEntry', fields={('f', 0): ref}, extra={'key': _key_repr(e, st, args[1])})


def m_entry_or_default(e, st, fr, t, args):
    en = args[0]
    if not (isinstance(en, VAgg) and en.name == 'HashEntry'):
        return NotImplemented
    ref = en.fields[('f', 0)]
    mp = _load(e, st, ref)
    k = en.extra['key']
    keys = mp.extra['keys']
    if k in keys:
        i = keys.index(k)
    else:
        i = len(keys)
        _store(e, st, ref, VAgg(name='HashMap', fields={**mp.fields, ('f', i): VAgg(name='Vec', extra={'items': ()})}, extra={'keys': keys + (k,)}))
    return VRef(ref.root, ref.path + (('f', i),), True)


def _drop_hashmap(d, st, v, why):
    for k, x in sorted(v.fields.items(), key=lambda kv: str(kv[0])):
        d.drop(st, x, why)


DROP_MODELS['HashMap'] = _drop_hashmap
DROP_MODELS['HashEntry'] = lambda d, st, v, why: None


def m_any_downcast_ref(e, st, fr, t, args):
    """<dyn Any>::downcast_ref::<T>(&*boxed): entries are stored under the TypeId of their own type, so the cast succeeds"""
    v = args[0]
    for _ in range(4):
        if isinstance(v, VRef):
            inner = _load(e, st, v)
            if isinstance(inner, VAgg) and inner.name == 'Box' and ('f', 0) in inner.fields:
                v = inner.fields[('f', 0)]
                continue
            if isinstance(inner, VRef):
                v = inner
                continue
        break
    if isinstance(v, VRef):
        return some(VRef(v.root, v.path, False))
    raise Unsupported(f"downcast_ref of {v!r}")


def m_any_downcast(e, st, fr, t, args):
    """Box<dyn Any>::downcast::<T>(b) -> Ok(Box<T>)"""
    return ok(args[0])


def m_unbox(e, st, fr, t, args):
    return NotImplemented


def m_option_ok_or(e, st, fr, t, args):
    o, er = args
    d = e.concrete_int(st, e.discriminant_of(st, o))
    if d is None:
        raise Unsupported("Option::ok_or symbolic")
    if d == 1:
        e.dropper.drop(st, er, 'unused ok_or error')
        return ok(e.get_field(o, ('v', 'Some', 0)))
    return err(er)


def m_result_ok(e, st, fr, t, args):
    r = args[0]
    d = e.concrete_int(st, e.discriminant_of(st, r))
    if d is None:
        if isinstance(r, VSym):
            return VSym(r.label + '.ok()', 'Option')
        raise Unsupported("Result::ok symbolic")
    if d == 0:
        return some(e.get_field(r, ('v', 'Ok', 0)))
    e.dropper.drop(st, e.get_field(r, ('v', 'Err', 0)), 'Result::ok discards error')
    return NONE


def m_result_map_err(e, st, fr, t, args):
    r, f = args
    d = e.concrete_int(st, e.discriminant_of(st, r))
    if d is None:
        raise Unsupported("Result::map_err symbolic")
    if d == 0:
        return r
    x = e.get_field(r, ('v', 'Err', 0))
    if isinstance(f, VConst) and 'into_send_error' in f.text and isinstance(x, VAgg) and x.name == 'TrySendError':
        e.dropper.drop(st, x.fields[('f', 1)], 'message handed back by try_send is dropped')
        return err(x.fields[('f', 0)])
    if isinstance(f, VAgg) and (f.name or '').startswith('{closure') or (isinstance(f, VConst) and '{closure' in f.text):
        # a user-written conversion closure: run it
        if call_fnlike(e, st, t, f, [x], 'wrap_err', (t.dest, t.target)):
            return None
    return err(VAgg(name='ActorError', fields={('f', 0): x}, extra={'from': _describe(x)}))


def builtin_fn_item(e, st, text, args):
    t = strip_generics(text)
    if t.endswith('Result::ok'):
        r = args[0]
        d = e.concrete_int(st, e.discriminant_of(st, r))
        if d is None:
            raise Unsupported("Result::ok on symbolic result")
        if d == 0:
            return some(e.get_field(r, ('v', 'Ok', 0)))
        e.dropper.drop(st, e.get_field(r, ('v', 'Err', 0)), 'Result::ok discards error')
        return NONE
    return NotImplemented


# =========================================================================== install
def m_now_or_never(e, st, fr, t, args):
    """FutureExt::now_or_never(fut): poll once with a no-op waker; Ready(v) -> Some(v), Pending -> None; fut is dropped"""
    fut = args[0]
    if isinstance(fut, VAgg) and fut.name == 'StreamNext':
        # Next<'_, PollFn<Box<dyn FnMut>>> (the mailbox): one call of the boxed receive closure, Poll -> Option
        sref = peel(e, st, fut.fields[('f', 0)])
        pf = _load(e, st, sref)
        if isinstance(pf, VAgg) and pf.name == 'PollFn':
            cref = peel(e, st, pf.fields[('f', 0)])
            clo = _load(e, st, cref)
            body = e.resolve_closure(st, clo)
            st.meta['conts'] = st.meta.get('conts', []) + [('poll_to_option', (t.dest, t.target, st.meta.get('blocked_on', frozenset())))]
            e.push_call(st, body, [VRef(cref.root, cref.path, True), VSym('cx_noop')], ret_dest=None, ret_bb=-1, unwind_bb=t.unwind, tag='cont')
            return None
    if isinstance(fut, VAgg) and fut.name == 'leaf' and fut.extra.get('kind') == 'userstream':
        pass
    elif not (isinstance(fut, VAgg) and (is_h(fut) or fut.name in ('leaf', 'sink::Send'))):
        raise Unsupported(f"now_or_never on {fut!r}")
    oid = st.alloc(fut)
    ref = VRef(('obj', oid), (), True)
    saved = st.meta.get('blocked_on', frozenset())
    outs = []
    for s2, pv in e.leaf_poll(st, ref, fut):
        s2.meta['blocked_on'] = saved          # a discarded poll does not block the task
        cur = s2.objs.get(oid)
        s2.objs[oid] = TOMB
        e.dropper.drop(s2, cur, 'now_or_never drops the future')
        val = some(pv.fields[('v', 'Ready', 0)]) if pv.vname == 'Ready' else NONE
        f2 = s2.frames[-1]
        e.write_place(s2, f2, t.dest, val)
        f2.bb = t.target
        outs.append(s2)
    return outs


def c_poll_to_option(e, st, data, rv):
    dest, target, saved = data
    st.meta['blocked_on'] = saved              # a discarded poll does not block the task
    d = e.concrete_int(st, e.discriminant_of(st, rv))
    if d is None:
        raise Unsupported("now_or_never: symbolic poll result")
    val = some(e.get_field(rv, ('v', 'Ready', 0))) if d == 0 else NONE
    f = st.frames[-1]
    e.write_place(st, f, dest, val)
    f.bb = target
    return None


def m_int_max(e, st, fr, t, args):
    a, b = e.as_int_expr(args[0]), e.as_int_expr(args[1])
    if isinstance(a, int) and isinstance(b, int):
        return VScalar(max(a, b))
    return VScalar(z3.If(a >= b, a, b))


def m_int_min(e, st, fr, t, args):
    a, b = e.as_int_expr(args[0]), e.as_int_expr(args[1])
    if isinstance(a, int) and isinstance(b, int):
        return VScalar(min(a, b))
    return VScalar(z3.If(a <= b, a, b))


def install(eng: Engine, resolver):
    eng.dropper = Dropper(eng, resolver)
    eng.conts['filter_keep'] = c_filter_keep
    eng.conts['poll_to_option'] = c_poll_to_option
    eng.models.insert(0, (R(r'^Option::<.*>::filter::<'), m_option_filter_fn))
    M = eng.models
    add = lambda rx, h: M.append((R(rx), h))
    add(r'^<usize as Ord>::max$|^std::cmp::max::<usize>$|^usize::max$', m_int_max)
    add(r'^<usize as Ord>::min$|^std::cmp::min::<usize>$|^usize::min$', m_int_min)
    add(r'^Arc::<.*>::new$', m_arc_new)
    add(r'^<Arc<.*> as Clone>::clone$', m_arc_clone)
    add(r'^<Arc<.*> as ToOwned>::to_owned$', m_arc_clone)
    add(r'^Arc::<.*>::clone$', m_arc_clone)
    add(r'^Arc::<.*>::downgrade$', m_arc_downgrade)
    add(r'^(std::sync::)?Weak::<.*>::upgrade$', m_weak_upgrade)
    add(r'^<(std::sync::)?Weak<.*> as Clone>::clone$', m_weak_clone)
    add(r'^(std::sync::)?Weak::<.*>::clone$', m_weak_clone)
    add(r'^(std::sync::)?(Weak|Arc)::<.*>::strong_count$', m_strong_count)
    add(r'^(std::sync::)?(Weak|Arc)::<.*>::weak_count$', m_weak_count)
    add(r'^(std::sync::)?(Weak|Arc)::<.*>::ptr_eq$', m_ptr_eq)
    add(r'^<Arc<.*> as Deref>::deref$', m_arc_deref)
    add(r'^<Box<.*> as Deref(Mut)?>::deref(_mut)?$', m_arc_deref)
    add(r'^<Box<.*> as Drop>::drop$', lambda e, st, fr, t, a: UNIT)    # explicit dealloc after moving the content out
    add(r'^Box::<.*>::new$', m_box_new)
    add(r'^Box::<.*>::pin$', m_box_pin)
    add(r'^(futures::futures_channel::)?mpsc::channel::<|^channel::<', m_mpsc_channel)
    add(r'^(futures::futures_channel::mpsc::)?unbounded::<', m_mpsc_unbounded)
    add(r'^<(Unbounded)?Sender<.*> as Clone>::clone$', m_sender_clone)
    add(r'^<(futures::futures_channel::mpsc::)?(Unbounded)?Sender<.*> as Clone>::clone$', m_sender_clone)
    add(r'^(futures::futures_channel::mpsc::)?(Unbounded)?Sender::<.*>::start_send$', m_start_send)
    add(r'^(futures::futures_channel::mpsc::)?(Unbounded)?Sender::<.*>::try_send$', m_try_send)
    add(r'TrySendError::<.*>::into_send_error$', m_into_send_error)
    add(r'^std::sync::Mutex::<.*>::new$', m_std_mutex_new)
    add(r'^std::sync::Mutex::<.*>::lock$', m_std_mutex_lock)
    add(r'^<std::sync::MutexGuard<.*> as Deref(Mut)?>::deref(_mut)?$', m_std_guard_deref)
    add(r'^(futures::futures_channel::mpsc::)?UnboundedSender::<.*>::len$', m_unbounded_len)
    add(r'^<(futures::futures_channel::mpsc::)?(Unbounded)?Sender<.*> as SinkExt<.*>>::send$', m_sink_send)
    add(r'^<&mut (futures::futures_channel::mpsc::)?(Unbounded)?Receiver<.*> as Stream>::poll_next$', m_rx_poll_next)
    # the same through a generic parameter (`fn payload_stream<S: Stream>(rx: S)`): decided by the value that is polled
    add(r'^<.* as (futures::)?SinkExt<.*>>::send$', m_sink_send)
    add(r'^<.* as (futures::)?Stream>::poll_next$', m_rx_poll_next)
    add(r'^(futures::)?(futures_channel::)?(mpsc::)?(Unbounded)?Receiver::<.*>::close$|^(futures::)?(futures_channel::)?(mpsc::)?(Unbounded)?Receiver::close$', m_rx_close)
    add(r'^<.* as (futures::)?Stream>::poll_next$', m_flat_map_poll_next)
    add(r'^<(futures::futures_channel::mpsc::)?(Unbounded)?Receiver<.*> as (futures::)?StreamExt>::ready_chunks$', m_ready_chunks)
    add(r'^<(futures::stream::)?ReadyChunks<.*> as (futures::)?StreamExt>::flat_map::<', m_flat_map_iter)
    add(r'^<&mut (futures::stream::)?FlatMap<.*> as Stream>::poll_next$', m_flat_map_poll_next)
    add(r'oneshot::channel::<', m_oneshot_channel)
    add(r'oneshot::Sender::<.*>::send$', m_oneshot_send)
    add(r' as FutureExt>::shared$', m_shared)
    add(r' as FutureExt>::now_or_never$', m_now_or_never)
    add(r'^<Shared<.*> as Clone>::clone$', m_shared_clone)
    add(r'^Shared::<.*>::peek$', m_shared_peek)
    add(r'^<Shared<.*> as (futures::future::)?FusedFuture>::is_terminated$', m_shared_is_terminated)
    add(r'^async_lock::(Mutex|RwLock)::<.*>::new$', m_mutex_new)
    add(r'^async_lock::Mutex::<.*>::lock$', m_lock_acquire('write'))
    add(r'^async_lock::RwLock::<.*>::write$', m_lock_acquire('write'))
    add(r'^async_lock::RwLock::<.*>::read$', m_lock_acquire('read'))
    add(r'^async_lock::RwLock::<.*>::try_read$', m_try_lock('read'))
    add(r'^async_lock::RwLock::<.*>::try_write$|^async_lock::Mutex::<.*>::try_lock$', m_try_lock('write'))
    add(r'^<async_lock::(Mutex|RwLockWrite|RwLockRead)Guard<.*> as Deref(Mut)?>::deref(_mut)?$', m_guard_deref)
    add(r'^futures::future::abortable::<', m_abortable)
    add(r'AbortHandle::abort$', m_abort)
    add(r'^Vec::<.*>::new$', m_vec_new)
    add(r'^<Vec<.*> as Default>::default$', m_vec_new)
    add(r'^Vec::<.*>::push$', m_vec_push)
    add(r'^Vec::<.*>::drain::<RangeFull>$', m_vec_drain_all)
    add(r'^<std::vec::Drain<.*> as Iterator>::next$', m_veciter_next)
    add(r'^<std::vec::Drain<.*> as IntoIterator>::into_iter$', lambda e, st, fr, t, a: a[0])
    add(r'^Option::<.*>::map::<', m_option_map)
    add(r'^Option::<.*>::and_then::<', m_option_and_then)
    add(r'^Option::<.*>::zip::<', m_option_zip)
    add(r'^Option::<.*>::is_some$', m_option_is_some)
    add(r'^Option::<.*>::is_none$', m_option_is_none)
    add(r'^Option::<.*>::as_ref$', m_option_as_ref)
    add(r'^Option::<.*>::ok_or::<', m_option_ok_or)
    add(r'^Option::<.*>::map_or::<', m_option_map_or)
    add(r'^Option::<.*>::unwrap_or$', m_option_unwrap_or)
    add(r'^Option::<.*>::is_some_and::<', m_option_is_some_and)
    add(r'^Option::<.*>::cloned$', m_option_cloned)
    add(r'^Option::<.*>::(unwrap|expect)$', m_option_unwrap)
    add(r'^<HashMap<.*> as Default>::default$|^HashMap::<.*>::new$', m_hashmap_new)
    add(r'^<HashSet<.*> as Default>::default$|^HashSet::<.*>::new$', m_hashmap_new)
    add(r'^HashSet::<.*>::insert$', m_hashset_insert)
    add(r'^HashSet::<.*>::contains::<', m_hashset_contains)
    add(r'^HashSet::<.*>::remove::<', m_hashset_remove)
    add(r'^HashMap::<.*>::get::<', m_hashmap_get(False))
    add(r'^HashMap::<.*>::get_mut::<', m_hashmap_get(True))
    add(r'^HashMap::<.*>::insert$', m_hashmap_insert)
    add(r'^HashMap::<.*>::remove::<', m_hashmap_remove)
    add(r'^HashMap::<.*>::entry$', m_hashmap_entry_or_default)
    add(r'^(std::collections::hash_map::)?Entry::<.*>::or_default$', m_entry_or_default)
    add(r'^<\(?dyn (std::any::)?Any.*>::downcast_ref::<', m_any_downcast_ref)
    add(r'Box<\(?dyn (std::any::)?Any.*>::downcast::<', m_any_downcast)
    add(r'^std::result::Result::<.*>::ok$', m_result_ok)
    add(r'^std::result::Result::<.*>::map_err::<', m_result_map_err)
