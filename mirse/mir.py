"""Parser for rustc's `-Zunpretty=mir` text dump (post-StateTransform, polymorphic MIR).

Only the constructs that occur in hannibal's dump are handled; anything else raises
ParseError so that an unknown construct is reported as inconclusive instead of being
silently mis-read.
"""
import re
from dataclasses import dataclass, field
from typing import Optional


class ParseError(Exception):
    pass


# ----------------------------------------------------------------------------- places
@dataclass(frozen=True)
class Place:
    local: int
    proj: tuple = ()   # ('deref',) | ('field', idx, ty) | ('downcast', name) | ('index', local) | ('constindex', n)

    def __str__(self):
        s = f"_{self.local}"
        for p in self.proj:
            if p[0] == 'deref':
                s = f"(*{s})"
            elif p[0] == 'field':
                s = f"({s}.{p[1]})"
            elif p[0] == 'downcast':
                s = f"({s} as {p[1]})"
            else:
                s = f"{s}[{p[1]}]"
        return s


@dataclass(frozen=True)
class Operand:
    kind: str            # 'copy' | 'move' | 'const'
    place: Optional[Place] = None
    const: Optional[str] = None


@dataclass
class Rvalue:
    kind: str
    ops: tuple = ()
    place: Optional[Place] = None
    name: Optional[str] = None     # aggregate path / binop name / cast kind
    fields: Optional[tuple] = None  # field names for struct aggregates
    ty: Optional[str] = None
    text: str = ''


@dataclass
class Stmt:
    kind: str            # 'assign' | 'setdisc' | 'nop'
    place: Optional[Place] = None
    rv: Optional[Rvalue] = None
    disc: Optional[int] = None
    text: str = ''


@dataclass
class Term:
    kind: str            # goto | switch | return | unreachable | resume | drop | call | assert | terminate
    target: Optional[int] = None
    unwind: Optional[int] = None
    op: Optional[Operand] = None
    cases: Optional[list] = None     # [(value, bb)], otherwise in .target
    place: Optional[Place] = None
    dest: Optional[Place] = None
    func: Optional[str] = None       # callee path text, or None when calling through an operand
    func_op: Optional[Operand] = None
    args: tuple = ()
    text: str = ''
    expected: Optional[bool] = None


@dataclass
class Block:
    idx: int
    cleanup: bool
    stmts: list
    term: Term


@dataclass
class Function:
    name: str
    header: str
    nargs: int
    arg_types: list
    ret_type: str
    local_types: dict
    blocks: dict
    line: int = 0
    debug: dict = field(default_factory=dict)


# ----------------------------------------------------------------------------- helpers
_OPEN = '([{'
_CLOSE = ')]}'


def match_close(s, i):
    """s[i] is an opening bracket; return index of its matching closing bracket.
    String literals (const "...") are skipped."""
    depth = 0
    j = i
    n = len(s)
    while j < n:
        c = s[j]
        if c == '"':
            j += 1
            while j < n and s[j] != '"':
                if s[j] == '\\':
                    j += 1
                j += 1
        elif c in _OPEN:
            depth += 1
        elif c in _CLOSE:
            depth -= 1
            if depth == 0:
                return j
        j += 1
    raise ParseError(f"unbalanced: {s[i:i+80]!r}")


def split_top(s, sep=','):
    """split on `sep` at bracket depth 0 (angle brackets are tracked too, but `->` and `=>` are ignored)."""
    out = []
    depth = 0
    ang = 0
    cur = []
    i = 0
    n = len(s)
    while i < n:
        c = s[i]
        if c == '"':
            j = i + 1
            while j < n and s[j] != '"':
                if s[j] == '\\':
                    j += 1
                j += 1
            cur.append(s[i:j + 1])
            i = j + 1
            continue
        if c in _OPEN:
            depth += 1
        elif c in _CLOSE:
            depth -= 1
        elif c == '<':
            ang += 1
        elif c == '>' and i > 0 and s[i - 1] not in '-=':
            ang = max(0, ang - 1)
        if c == sep and depth == 0 and ang == 0:
            out.append(''.join(cur).strip())
            cur = []
        else:
            cur.append(c)
        i += 1
    last = ''.join(cur).strip()
    if last or out:
        out.append(last)
    return [x for x in out if x != '']


_LOCAL = re.compile(r'_(\d+)')


def parse_place_prefix(s):
    """parse a place at the start of s, return (Place, rest)."""
    s = s.lstrip()
    m = _LOCAL.match(s)
    if m:
        pl = Place(int(m.group(1)))
        rest = s[m.end():]
    elif s.startswith('('):
        j = match_close(s, 0)
        inner = s[1:j]
        rest = s[j + 1:]
        if inner.startswith('*'):
            base, r2 = parse_place_prefix(inner[1:])
            if r2.strip():
                raise ParseError(f"deref rest {r2!r}")
            pl = Place(base.local, base.proj + (('deref',),))
        else:
            base, r2 = parse_place_prefix(inner)
            if r2.startswith(' as '):
                pl = Place(base.local, base.proj + (('downcast', r2[4:].strip()),))
            elif r2.startswith('.'):
                m2 = re.match(r'\.(\d+): ?(.*)$', r2, re.S)
                if not m2:
                    raise ParseError(f"field proj {r2!r}")
                pl = Place(base.local, base.proj + (('field', int(m2.group(1)), m2.group(2).strip()),))
            else:
                raise ParseError(f"place inner {inner!r}")
    else:
        raise ParseError(f"place {s[:60]!r}")
    # index suffixes
    while rest.startswith('['):
        j = match_close(rest, 0)
        idx = rest[1:j]
        m3 = _LOCAL.fullmatch(idx.strip())
        if m3:
            pl = Place(pl.local, pl.proj + (('index', int(m3.group(1))),))
        else:
            pl = Place(pl.local, pl.proj + (('constindex', idx.strip()),))
        rest = rest[j + 1:]
    return pl, rest


def parse_place(s):
    pl, rest = parse_place_prefix(s)
    if rest.strip():
        raise ParseError(f"trailing after place: {rest!r} in {s!r}")
    return pl


def parse_operand(s):
    s = s.strip()
    if s.startswith('no_retag '):
        s = s[9:]
    if s.startswith('copy '):
        return Operand('copy', parse_place(s[5:]))
    if s.startswith('move '):
        return Operand('move', parse_place(s[5:]))
    if s.startswith('const '):
        return Operand('const', const=s[6:].strip())
    if re.match(r'^[A-Za-z<{]', s) and not s.startswith(('copy', 'move')):
        # zero-sized fn item / unit struct constant printed without the `const` keyword
        return Operand('const', const=s)
    raise ParseError(f"operand {s[:80]!r}")


_BINOPS = ('Add', 'Sub', 'Mul', 'Div', 'Rem', 'BitXor', 'BitAnd', 'BitOr', 'Shl', 'Shr', 'Eq', 'Lt', 'Le', 'Ne', 'Ge',
           'Gt', 'Cmp', 'Offset', 'AddUnchecked', 'SubUnchecked', 'MulUnchecked', 'ShlUnchecked', 'ShrUnchecked',
           'AddWithOverflow', 'SubWithOverflow', 'MulWithOverflow')
_UNOPS = ('Not', 'Neg', 'PtrMetadata')


def parse_rvalue(s):
    s = s.strip()
    text = s
    if s.startswith('no_retag '):
        s = s[9:]
    if s.startswith(('copy ', 'move ')):
        pl, rest = parse_place_prefix(s[5:])
        op = Operand(s[:4], pl)
        if rest.startswith(' as '):
            m = re.match(r'^ as (.*) \(([A-Za-z]+(?:\(.*\))?)\)$', rest, re.S)
            if not m:
                raise ParseError(f"cast {rest[:80]!r}")
            return Rvalue('cast', ops=(op,), ty=m.group(1), name=m.group(2), text=text)
        if rest.strip():
            raise ParseError(f"use rest {rest[:80]!r}")
        return Rvalue('use', ops=(op,), text=text)
    if s.startswith('const '):
        m = re.match(r'^const (.*) as (.*) \(([A-Za-z]+(?:\(.*\))?)\)$', s, re.S)
        if m and not s.startswith('const "') and not s.startswith('const b"'):
            return Rvalue('cast', ops=(Operand('const', const=m.group(1)),), ty=m.group(2), name=m.group(3), text=text)
        return Rvalue('use', ops=(parse_operand(s),), text=text)
    if s.startswith('&raw mut ') or s.startswith('&raw const '):
        k = s.split(' ', 2)
        return Rvalue('ref', place=parse_place(k[2]), name='raw', text=text)
    if s.startswith('&mut '):
        return Rvalue('ref', place=parse_place(s[5:]), name='mut', text=text)
    if s.startswith('&fake '):
        return Rvalue('ref', place=parse_place(s.split(' ', 2)[2]), name='shared', text=text)
    if s.startswith('&'):
        return Rvalue('ref', place=parse_place(s[1:]), name='shared', text=text)
    if s.startswith('discriminant('):
        return Rvalue('discriminant', place=parse_place(s[len('discriminant('):-1]), text=text)
    if s.startswith('CopyForDeref('):
        return Rvalue('use', ops=(Operand('copy', parse_place(s[len('CopyForDeref('):-1])),), text=text)
    if s.startswith('Len('):
        return Rvalue('len', place=parse_place(s[4:-1]), text=text)
    if s.startswith('ShallowInitBox('):
        parts = split_top(s[len('ShallowInitBox('):-1])
        return Rvalue('use', ops=(parse_operand(parts[0]),), text=text)
    m = re.match(r'^([A-Za-z]+)\((.*)\)$', s, re.S)
    if m and m.group(1) in _BINOPS:
        a, b = split_top(m.group(2))
        return Rvalue('binop', ops=(parse_operand(a), parse_operand(b)), name=m.group(1), text=text)
    if m and m.group(1) in _UNOPS:
        return Rvalue('unop', ops=(parse_operand(m.group(2)),), name=m.group(1), text=text)
    if s.startswith('('):
        j = match_close(s, 0)
        if j == len(s) - 1:
            inner = s[1:-1].strip()
            ops = tuple(parse_operand(x) for x in split_top(inner)) if inner else ()
            return Rvalue('tuple', ops=ops, text=text)
    if s.startswith('['):
        j = match_close(s, 0)
        if j == len(s) - 1:
            inner = s[1:-1]
            if ';' in inner and len(split_top(inner, ';')) == 2:
                a, _n = split_top(inner, ';')
                return Rvalue('array', ops=(parse_operand(a),), text=text)
            return Rvalue('array', ops=tuple(parse_operand(x) for x in split_top(inner)), text=text)
    # closure / coroutine aggregate:  {closure@..} { a: op, .. }   or   {closure@..}
    if s.startswith('{'):
        j = match_close(s, 0)
        name = s[:j + 1]
        rest = s[j + 1:].strip()
        if not rest:
            return Rvalue('aggregate', ops=(), name=name, fields=(), text=text)
        if rest.startswith('{') and rest.endswith('}'):
            names, ops = _parse_named_fields(rest[1:-1])
            return Rvalue('aggregate', ops=ops, name=name, fields=names, text=text)
        raise ParseError(f"closure aggregate {s[:100]!r}")
    # struct aggregate  Path { f: op, .. }   /  variant aggregate Path(op, ..)   / unit  Path
    if s.endswith('}'):
        # find the top-level ' { '
        i = _find_top(s, ' {')
        if i is not None:
            name = s[:i].strip()
            names, ops = _parse_named_fields(s[i + 2:-1])
            return Rvalue('aggregate', ops=ops, name=name, fields=names, text=text)
    if s.endswith(')'):
        # last top-level paren group
        i = _last_group_start(s)
        name = s[:i].strip()
        inner = s[i + 1:-1].strip()
        ops = tuple(parse_operand(x) for x in split_top(inner)) if inner else ()
        return Rvalue('aggregate', ops=ops, name=name, fields=None, text=text)
    if re.match(r'^[A-Za-z_<]', s):
        return Rvalue('aggregate', ops=(), name=s, fields=None, text=text)
    raise ParseError(f"rvalue {s[:120]!r}")


def _find_top(s, pat):
    depth = 0
    ang = 0
    i = 0
    n = len(s)
    while i < n:
        c = s[i]
        if c == '"':
            i += 1
            while i < n and s[i] != '"':
                if s[i] == '\\':
                    i += 1
                i += 1
        elif s.startswith(pat, i) and depth == 0 and ang == 0:
            return i
        elif c in _OPEN:
            depth += 1
        elif c in _CLOSE:
            depth -= 1
        elif c == '<':
            ang += 1
        elif c == '>' and s[i - 1] not in '-=':
            ang = max(0, ang - 1)
        i += 1
    return None


def _last_group_start(s):
    """s ends with ')': index of the matching '('."""
    depth = 0
    i = len(s) - 1
    while i >= 0:
        c = s[i]
        if c == '"':
            i -= 1
            while i >= 0 and not (s[i] == '"' and (i == 0 or s[i - 1] != '\\')):
                i -= 1
        elif c in _CLOSE:
            depth += 1
        elif c in _OPEN:
            depth -= 1
            if depth == 0:
                return i
        i -= 1
    raise ParseError(f"no group start in {s[:80]!r}")


def _parse_named_fields(inner):
    names = []
    ops = []
    for part in split_top(inner):
        m = re.match(r'^([A-Za-z_0-9]+): (.*)$', part, re.S)
        if not m:
            raise ParseError(f"named field {part[:80]!r}")
        names.append(m.group(1))
        ops.append(parse_operand(m.group(2)))
    return tuple(names), tuple(ops)


_BB = re.compile(r'bb(\d+)')


def _targets(s):
    """parse `-> [return: bb1, unwind: bb2]` / `-> bb3` / `-> unwind continue` / `-> [return: bb1, unwind continue]`."""
    s = s.strip()
    ret = None
    unw = None
    if s.startswith('['):
        for part in split_top(s[1:-1]):
            part = part.strip()
            if part.startswith(('return:', 'success:')):
                ret = int(_BB.search(part).group(1))
            elif part.startswith('unwind:'):
                unw = int(_BB.search(part).group(1))
            elif part.startswith('unwind'):
                unw = None
            else:
                raise ParseError(f"target {part!r}")
    elif s.startswith('bb'):
        ret = int(_BB.match(s).group(1))
    elif s.startswith('unwind'):
        m = _BB.search(s)
        unw = int(m.group(1)) if m else None
    else:
        raise ParseError(f"targets {s!r}")
    return ret, unw


def parse_terminator(s):
    text = s
    s = s.strip().rstrip(';')
    if s == 'return':
        return Term('return', text=text)
    if s == 'unreachable':
        return Term('unreachable', text=text)
    if s == 'resume':
        return Term('resume', text=text)
    if s.startswith('terminate'):
        return Term('terminate', text=text)
    if s == 'coroutine_drop':
        return Term('return', text=text)
    if s.startswith('goto -> '):
        return Term('goto', target=int(_BB.search(s).group(1)), text=text)
    if s.startswith('falseEdge') or s.startswith('falseUnwind'):
        m = re.search(r'real: bb(\d+)', s)
        return Term('goto', target=int(m.group(1)), text=text)
    if s.startswith('switchInt('):
        j = match_close(s, len('switchInt'))
        op = parse_operand(s[len('switchInt('):j])
        rest = s[j + 1:].strip()
        assert rest.startswith('-> ['), rest
        cases = []
        other = None
        for part in split_top(rest[4:-1]):
            k, v = part.split(':')
            bb = int(_BB.search(v).group(1))
            if k.strip() == 'otherwise':
                other = bb
            else:
                cases.append((int(k.strip()), bb))
        return Term('switch', op=op, cases=cases, target=other, text=text)
    if s.startswith('drop('):
        j = match_close(s, 4)
        pl = parse_place(s[5:j])
        rest = s[j + 1:].strip()
        assert rest.startswith('->'), rest
        ret, unw = _targets(rest[2:])
        return Term('drop', place=pl, target=ret, unwind=unw, text=text)
    if s.startswith('assert('):
        j = match_close(s, 6)
        parts = split_top(s[7:j])
        cond = parts[0].strip()
        expected = True
        if cond.startswith('!'):
            expected = False
            cond = cond[1:]
        rest = s[j + 1:].strip()
        ret, unw = _targets(rest[2:].strip())
        return Term('assert', op=parse_operand(cond), expected=expected, target=ret, unwind=unw, text=text)
    # call:  DEST = CALLEE(ARGS) -> TARGETS      (DEST may be absent for diverging calls? rustc always prints it)
    i = _find_top(s, ' -> ')
    # the *last* top-level ' -> ' separates the targets (callee paths may contain '->' inside brackets only)
    last = None
    pos = 0
    while True:
        k = _find_top(s[pos:], ' -> ')
        if k is None:
            break
        last = pos + k
        pos = pos + k + 4
    if last is None:
        raise ParseError(f"terminator {s[:100]!r}")
    head = s[:last].strip()
    ret, unw = _targets(s[last + 4:])
    eq = _find_top(head, ' = ')
    if eq is None:
        raise ParseError(f"call without dest {head[:100]!r}")
    dest = parse_place(head[:eq])
    callexpr = head[eq + 3:].strip()
    if not callexpr.endswith(')'):
        raise ParseError(f"call expr {callexpr[:100]!r}")
    gi = _last_group_start(callexpr)
    callee = callexpr[:gi].strip()
    inner = callexpr[gi + 1:-1].strip()
    args = tuple(parse_operand(x) for x in split_top(inner)) if inner else ()
    func_op = None
    func = callee
    if callee.startswith(('move ', 'copy ')):
        func_op = parse_operand(callee)
        func = None
    return Term('call', dest=dest, func=func, func_op=func_op, args=args, target=ret, unwind=unw, text=text)


def parse_statement(s):
    text = s
    s = s.strip().rstrip(';')
    if s in ('nop',) or s.startswith(('StorageLive(', 'StorageDead(', 'PlaceMention(', 'FakeRead(', 'Retag(',
                                       'AscribeUserType(', 'Coverage', 'ConstEvalCounter', 'BackwardIncompatibleDropHint',
                                       'assume(', 'Deinit(')):
        return Stmt('nop', text=text)
    if s.startswith('discriminant('):
        j = match_close(s, len('discriminant'))
        pl = parse_place(s[len('discriminant('):j])
        rest = s[j + 1:].strip()
        assert rest.startswith('='), rest
        return Stmt('setdisc', place=pl, disc=int(rest[1:].strip()), text=text)
    eq = _find_top(s, ' = ')
    if eq is None:
        raise ParseError(f"statement {s[:100]!r}")
    pl = parse_place(s[:eq])
    return Stmt('assign', place=pl, rv=parse_rvalue(s[eq + 3:]), text=text)


_FN_HDR = re.compile(r'^fn (.*)$')


_SIMPLE_CONST = re.compile(r'^const ([\w:<>, ]+): [^=]+ = const (.+);$')


def _add_const(consts, key, value):
    """constant items are looked up by their last path segment: two different items of the same name (associated consts
    of several impls, consts local to different functions) make the name ambiguous - it then resolves to nothing"""
    if key in consts and consts[key] != value:
        consts[key] = '<ambiguous>'
    else:
        consts[key] = value


class FnList(list):
    """the functions of a dump plus its literal constant items {last path segment: literal text}"""
    def __init__(self, *a):
        super().__init__(*a)
        self.consts = {}


def parse_mir(text):
    """returns list[Function] (bodies parsed lazily on demand via Function.blocks property is overkill: parse eagerly
    but tolerate ParseError per function by recording it)."""
    lines = text.split('\n')
    funcs = FnList()
    i = 0
    n = len(lines)
    while i < n:
        ln = lines[i]
        mc = _SIMPLE_CONST.match(ln)
        if mc:
            # `const NAME: usize = const 32_usize;` (a literal constant item, e.g. a `const` inside a function)
            _add_const(funcs.consts, mc.group(1).split('::')[-1], mc.group(2).strip())
        mb = re.match(r'^const ([\w:<>, ]+): [^=]+ = \{$', ln)
        if mb:
            # `const NAME: T = { ... _0 = callee(const lit, ..) ... }`: a constant item initialised by ONE call with
            # literal arguments (e.g. Duration::from_secs(10)); kept as ('call', callee, [literals])
            j = i + 1
            body = []
            while j < n and lines[j] != '}':
                body.append(lines[j].strip())
                j += 1
            calls = [b for b in body if re.match(r'^_0 = .*\(.*\) -> ', b)]
            stmts = [b for b in body if re.match(r'^_\d+ = ', b)]
            if len(calls) == 1 and len(stmts) == 1:
                mcall = re.match(r'^_0 = (.*?)\((.*)\) -> ', calls[0])
                argl = [a.strip() for a in mcall.group(2).split(',') if a.strip()]
                if all(a.startswith('const ') for a in argl):
                    _add_const(funcs.consts, mb.group(1).split('::')[-1], ('call', mcall.group(1), [a[6:] for a in argl]))
            else:
                # initialised by something else (e.g. a const-generic parameter): the name must not resolve to another item
                _add_const(funcs.consts, mb.group(1).split('::')[-1], '<not a literal>')
        if ln.startswith('fn ') and ln.rstrip().endswith('{'):
            start = i
            j = i + 1
            while j < n and lines[j] != '}':
                j += 1
            funcs.append(_parse_function(lines[start:j + 1], start + 1))
            i = j + 1
        else:
            i += 1
    return funcs


def _parse_function(lines, lineno):
    hdr = lines[0][3:].rstrip()
    assert hdr.endswith('{')
    hdr = hdr[:-1].rstrip()
    # name(args) -> ret
    k = _find_top(hdr, ' -> ')
    # the return arrow is the last top-level ' -> '
    last = None
    pos = 0
    while True:
        kk = _find_top(hdr[pos:], ' -> ')
        if kk is None:
            break
        last = pos + kk
        pos = pos + kk + 4
    if last is not None:
        sig = hdr[:last]
        ret = hdr[last + 4:].strip()
    else:
        sig = hdr
        ret = '()'
    gi = _last_group_start(sig)
    name = sig[:gi]
    argstr = sig[gi + 1:-1]
    arg_types = []
    for a in split_top(argstr):
        m = re.match(r'^_(\d+): (.*)$', a, re.S)
        if not m:
            raise ParseError(f"arg {a!r} in {hdr[:100]}")
        arg_types.append(m.group(2))
    f = Function(name=name, header=hdr, nargs=len(arg_types), arg_types=arg_types, ret_type=ret, local_types={},
                 blocks={}, line=lineno)
    for idx, t in enumerate(arg_types):
        f.local_types[idx + 1] = t
    f.local_types[0] = ret
    cur = None
    body_err = None
    for ln in lines[1:-1]:
        s = ln.strip()
        if not s:
            continue
        m = re.match(r'^let (?:mut )?_(\d+): (.*);$', s)
        if m:
            f.local_types[int(m.group(1))] = m.group(2)
            continue
        m = re.match(r'^debug (\S+) => (.*);$', s)
        if m:
            f.debug.setdefault(m.group(1), m.group(2))
            continue
        if s.startswith('scope ') or s == '}':
            if s == '}' and cur is not None and ln.startswith('    }'):
                cur = None
            continue
        m = re.match(r'^bb(\d+)( \(cleanup\))?: \{$', s)
        if m:
            cur = Block(int(m.group(1)), bool(m.group(2)), [], None)
            f.blocks[cur.idx] = cur
            continue
        if cur is None:
            continue
        try:
            # terminator or statement?
            if _is_terminator(s):
                cur.term = parse_terminator(s)
            else:
                cur.stmts.append(parse_statement(s))
        except (ParseError, AssertionError, ValueError, AttributeError) as e:
            # keep going; the block is poisoned and executing it raises
            cur.stmts.append(Stmt('error', text=f"{s[:160]} :: {e}"))
            if body_err is None:
                body_err = f"{s[:160]} :: {e}"
    f.parse_error = body_err
    return f


def _is_terminator(s):
    s = s.rstrip(';')
    if s in ('return', 'unreachable', 'resume', 'coroutine_drop') or s.startswith(('goto -> ', 'switchInt(', 'drop(',
                                                                                    'assert(', 'terminate', 'falseEdge',
                                                                                    'falseUnwind')):
        return True
    # calls end with a target spec
    return bool(re.search(r'\) -> (\[return: bb\d+|\[return|bb\d+|unwind)', s)) and ' = ' in s
