"""Resolve a MIR call-site path (`Addr::<A>::stop`, `<Addr<A> as Clone>::clone`, `<dyn TxFn<A> as TxFn<A>>::send`,
`Service::setup` ...) to the MIR function of hannibal that implements it.

MIR function names carry the impl *location* (`addr::<impl at src/addr.rs:86:1: 86:25>::stop`); the impl header is read
from the source file at that location to learn (trait, self type).  Anything ambiguous raises Unsupported.
"""
import os
import re

from engine import Unsupported, strip_generics


def _norm(s):
    s = re.sub(r"'\w+ ?", '', s)
    s = re.sub(r'\s+', ' ', s).strip()
    s = re.sub(r'\b(?:std|core|alloc|crate|self|super)::(?:[a-z_0-9]+::)*', '', s)
    s = re.sub(r'\b(?:[a-z_][a-z_0-9]*::)+', '', s)          # drop module paths
    s = s.replace(' ', '')
    return s


def base_name(ty):
    t = _norm(ty)
    t = re.sub(r'^&(mut)?', '', t)
    t = re.sub(r'^dyn', 'dyn ', t)
    m = re.match(r'^(dyn )?([A-Za-z_][A-Za-z_0-9]*)', t)
    if not m:
        return t
    return (m.group(1) or '') + m.group(2)


class ImplInfo:
    __slots__ = ('trait', 'selfty', 'generics', 'text')

    def __init__(self, trait, selfty, generics, text):
        self.trait = trait
        self.selfty = selfty
        self.generics = generics
        self.text = text


class Resolver:
    def __init__(self, functions, repo):
        self.functions = functions
        self.repo = repo
        self.by_method = {}
        self.impl_cache = {}
        self.src_cache = {}
        for f in functions:
            if f.name.endswith('}') and '{closure#' in f.name.split('::')[-1]:
                continue
            meth = f.name.split('::')[-1]
            self.by_method.setdefault(meth, []).append(f)

    def impl_of(self, f):
        m = re.search(r'<impl at ([^:>]+):(\d+):(\d+): (\d+):(\d+)>', f.name)
        if not m:
            return None
        key = m.group(0)
        if key in self.impl_cache:
            return self.impl_cache[key]
        path = os.path.join(self.repo, m.group(1))
        if path not in self.src_cache:
            self.src_cache[path] = open(path).read().split('\n')
        lines = self.src_cache[path]
        l1, c1, l2, c2 = int(m.group(2)), int(m.group(3)), int(m.group(4)), int(m.group(5))
        if l1 == l2:
            hdr = lines[l1 - 1][c1 - 1:c2 - 1]
        else:
            hdr = lines[l1 - 1][c1 - 1:] + ' ' + ' '.join(lines[l1:l2 - 1]) + ' ' + lines[l2 - 1][:c2 - 1]
        info = self._parse_impl(hdr)
        self.impl_cache[key] = info
        return info

    @staticmethod
    def _parse_impl(hdr):
        h = hdr.strip()
        if re.fullmatch(r'[A-Za-z_]+', h) or h.startswith('#['):
            # span of a `#[derive(Trait)]` attribute: derived impl, self type not recoverable from the span
            return ImplInfo(h, '?derived', '', hdr)
        if not h.startswith('impl'):
            raise Unsupported(f"impl header {h!r}")
        h = h[4:].lstrip()
        generics = ''
        if h.startswith('<'):
            depth = 0
            for i, c in enumerate(h):
                if c == '<':
                    depth += 1
                elif c == '>' and h[i - 1] != '-':
                    depth -= 1
                    if depth == 0:
                        generics = h[1:i]
                        h = h[i + 1:].lstrip()
                        break
        h = re.split(r'\bwhere\b', h)[0].strip().rstrip('{').strip()
        # split on top-level ' for '
        depth = 0
        pos = None
        for i in range(len(h)):
            c = h[i]
            if c in '<(':
                depth += 1
            elif c in '>)' and h[i - 1] != '-':
                depth -= 1
            elif depth == 0 and h.startswith(' for ', i):
                pos = i
                break
        if pos is None:
            return ImplInfo(None, h, generics, hdr)
        return ImplInfo(h[:pos].strip(), h[pos + 5:].strip(), generics, hdr)

    # ---- generic bindings made explicit at a call site
    def type_defaults(self):
        """{type name: [(param, default or None), ...]} for the structs/enums of the crate (read from the source)"""
        if getattr(self, '_defaults', None) is None:
            d = {}
            for dp, dn, fns in os.walk(os.path.join(self.repo, 'src')):
                for fn in fns:
                    if not fn.endswith('.rs'):
                        continue
                    src = open(os.path.join(dp, fn)).read()
                    for m in re.finditer(r'\b(?:struct|enum)\s+(\w+)\s*<', src):
                        i = m.end() - 1
                        depth = 0
                        for j in range(i, min(len(src), i + 2000)):
                            if src[j] == '<':
                                depth += 1
                            elif src[j] == '>' and src[j - 1] not in '-=':
                                depth -= 1
                                if depth == 0:
                                    ps = []
                                    for g in _split_generics(src[i + 1:j]):
                                        if g.startswith("'") or g.startswith('const '):
                                            continue
                                        name = re.split(r'[:=]', g)[0].strip()
                                        dm = re.search(r'=\s*(.+)$', g, re.S)
                                        ps.append((name, dm.group(1).strip() if dm else None))
                                    d[m.group(1)] = ps
                                    break
            self._defaults = d
        return self._defaults

    def fn_generics(self, fn):
        """names of the explicit type parameters of a function, read from its declaration in the source"""
        cache = self.__dict__.setdefault('_fn_generics', {})
        if fn.name in cache:
            return cache[fn.name]
        meth = fn.name.split('::')[-1]
        names = []
        m = re.search(r'<impl at ([^:>]+):(\d+):', fn.name)
        files = []
        if m:
            files = [(os.path.join(self.repo, m.group(1)), int(m.group(2)))]
        else:
            for dp, dn, fns in os.walk(os.path.join(self.repo, 'src')):
                files += [(os.path.join(dp, f), 1) for f in fns if f.endswith('.rs')]
        for path, line in files:
            if path not in self.src_cache:
                try:
                    self.src_cache[path] = open(path).read().split('\n')
                except OSError:
                    continue
            src = '\n'.join(self.src_cache[path][line - 1:])
            mm = re.search(r'\bfn\s+' + re.escape(meth) + r'\s*<', src)
            if not mm:
                continue
            i = mm.end() - 1
            depth = 0
            for j in range(i, min(len(src), i + 1500)):
                if src[j] == '<':
                    depth += 1
                elif src[j] == '>' and src[j - 1] not in '-=':
                    depth -= 1
                    if depth == 0:
                        for g in _split_generics(src[i + 1:j]):
                            if g.startswith("'") or g.startswith('const '):
                                continue
                            names.append(re.split(r'[:=]', g)[0].strip())
                        break
            break
        cache[fn.name] = names
        return names

    def call_bindings(self, callee, fn, caller_tsub):
        """the impl's generic parameters that the call path `callee` binds: `Environment::<A, NonRestartable>::create_loop`
        resolved to a method of `impl<A, R> Environment<A, R>` binds R := NonRestartable (arguments omitted by rustc
        because they equal the declared default are filled in from the type's declaration).  Identifiers that are
        generic parameters of the caller are replaced by the caller's own bindings."""
        out = {}
        # ---- the function's own generic parameters bound by a trailing turbofish: `...::register_child::<(), ..>`
        meth = fn.name.split('::')[-1]
        tm = re.search(r'(?:^|::)' + re.escape(meth) + r'::<(.*)>$', callee.strip(), re.S)
        if tm:
            fparams = self.fn_generics(fn)
            fargs = [a for a in _split_generics(tm.group(1)) if not a.startswith("'")]
            for pn, ca in zip(fparams, fargs):
                ca = ca.strip()
                if caller_tsub:
                    ca = re.sub(r'\b([A-Za-z_]\w*)\b', lambda mm: caller_tsub.get(mm.group(1), mm.group(1)), ca)
                if ca != pn:
                    out[pn] = ca
        info = self.impl_of(fn)
        if info is None or not info.generics or info.selfty in (None, '?derived'):
            return out or None
        params = [re.split(r'[:=]', g)[0].strip() for g in _split_generics(info.generics) if not g.startswith("'")]
        sm = re.match(r'^(?:\w+::)*(\w+)\s*<(.*)>$', info.selfty.strip(), re.S)
        if not sm:
            return out or None
        tname, self_args = sm.group(1), [a for a in _split_generics(sm.group(2)) if not a.startswith("'")]
        c = callee.strip()
        m = re.match(r'^<(.*) as (.*)>::(\w+)(::<.*>)?$', c, re.S)
        if m:
            selfty = self._split_as(c)[0]
            am = re.match(r'^&?(?:mut )?(?:\w+::)*(\w+)\s*<(.*)>$', selfty.strip(), re.S)
            if not am or am.group(1) != tname:
                return out or None
            call_args = [a for a in _split_generics(am.group(2)) if not a.startswith("'")]
        else:
            am = re.search(r'(?:^|::)' + re.escape(tname) + r'::<(.*)>::\w+(?:::<.*>)?$', c, re.S)
            if not am:
                return out or None
            txt = am.group(1)
            # cut at the matching '>' of the first '<'
            depth = 1
            for k, ch in enumerate(txt):
                if ch == '<':
                    depth += 1
                elif ch == '>' and txt[k - 1] not in '-=':
                    depth -= 1
                    if depth == 0:
                        txt = txt[:k]
                        break
            call_args = [a for a in _split_generics(txt) if not a.startswith("'")]
        decl = self.type_defaults().get(tname)
        if len(call_args) < len(self_args) and decl and len(decl) == len(self_args):
            call_args = call_args + [dflt for (_, dflt) in decl[len(call_args):]]
        if len(call_args) != len(self_args) or any(a is None for a in call_args):
            return out or None
        for sa, ca in zip(self_args, call_args):
            sa = sa.strip()
            if sa in params:
                ca = ca.strip()
                if caller_tsub:
                    ca = re.sub(r'\b([A-Za-z_]\w*)\b', lambda mm: caller_tsub.get(mm.group(1), mm.group(1)), ca)
                out[sa] = ca
        return out or None

    def resolve(self, callee):
        """returns Function or None (not a hannibal function)"""
        c = callee.strip()
        # `service::<impl Addr<A>>::register` style paths (inherent impl in another module)
        m0 = re.match(r'^(\w+)::<impl (.*)>::(\w+)(::<.*>)?$', c, re.S)
        if m0:
            return self._pick(m0.group(3), m0.group(2), None, c, module=m0.group(1))
        m = re.match(r'^<(.*) as (.*)>::(\w+)(::<.*>)?$', c, re.S)
        if m:
            selfty, trait, meth = self._split_as(c)
            return self._pick(meth, selfty, trait, c, module=_module_of(trait) or _module_of(selfty))
        # Type::<..>::method  /  module::func  / Trait::method (default method called statically)
        s = strip_generics(re.sub(r"'\w+ ?", '', c))
        parts = s.split('::')
        meth = parts[-1]
        if len(parts) == 1:
            cands = [f for f in self.by_method.get(meth, []) if f.name == meth or f.name.endswith('::' + meth) and '<impl' not in f.name and f.name.count('::') <= 1]
            if len(cands) == 1:
                return cands[0]
            return None
        selfty = parts[-2]
        return self._pick(meth, selfty, None, c, module=parts[-3] if len(parts) >= 3 else None)

    @staticmethod
    def _split_as(c):
        # <SELF as TRAIT>::meth ; find the top-level ' as '
        inner_end = None
        depth = 0
        for i, ch in enumerate(c):
            if ch == '<':
                depth += 1
            elif ch == '>' and c[i - 1] not in '-=':
                depth -= 1
                if depth == 0:
                    inner_end = i
                    break
        inner = c[1:inner_end]
        rest = c[inner_end + 1:]
        meth = rest.split('::')[1]
        depth = 0
        pos = None
        for i in range(len(inner)):
            ch = inner[i]
            if ch in '<([{':
                depth += 1
            elif ch in '>)]}' and inner[i - 1] not in '-=':
                depth -= 1
            elif depth == 0 and inner.startswith(' as ', i):
                pos = i
        if pos is None:
            raise Unsupported(f"cannot split {c[:80]}")
        return inner[:pos], inner[pos + 4:], meth

    def _pick(self, meth, selfty, trait, text, module=None):
        cands = self.by_method.get(meth, [])
        if not cands:
            return None
        sb = base_name(selfty)
        tb = base_name(trait) if trait else None
        scored = []
        for f in cands:
            info = self.impl_of(f)
            if info is None:
                # trait default method: name is `Trait::method` (possibly module-prefixed)
                owner = f.name.split('::')[-2] if '::' in f.name else None
                if trait and owner == tb.replace('dyn ', ''):
                    scored.append((1, f))
                elif not trait and owner == sb:
                    scored.append((1, f))
                continue
            if info.selfty == '?derived':
                # `#[derive(Trait)]`: the span only names the trait; Self is the type of the first argument (clone, eq,
                # fmt ...) or, for argument-less functions (default), the return type
                tyt = (f.arg_types[0] if f.nargs >= 1 else f.ret_type) or ''
                tyt = re.sub(r'^&(mut )?', '', tyt.strip())
                if not tyt or not tb or base_name(info.trait) != tb:
                    continue
                if base_name(tyt) == sb:
                    scored.append((3, f))
                continue
            ib = base_name(info.selfty)
            itb = base_name(info.trait) if info.trait else None
            if (tb or None) != (itb or None):
                if not (tb and itb and tb == itb):
                    continue
            gen_params = set(p.split(':')[0].strip() for p in _split_generics(info.generics))
            if ib == sb:
                score = 3
                # exact trait text match (e.g. From<&Addr<A>> vs From<Addr<A>>)
                if trait and info.trait and _norm(trait) == _norm(info.trait):
                    score = 4
                scored.append((score, f))
            elif ib in gen_params:
                scored.append((2, f))       # blanket impl over a type parameter
        if not scored:
            return None
        best = max(s for s, _ in scored)
        top = [f for s, f in scored if s == best]
        if len(top) > 1 and trait:
            # disambiguate by full trait text
            t2 = [f for f in top if self.impl_of(f) and self.impl_of(f).trait and _norm(self.impl_of(f).trait) == _norm(trait)]
            if len(t2) == 1:
                top = t2
        if len(top) > 1 and module:
            t3 = [f for f in top if f.name.split('::')[0] == module]
            if t3:
                top = t3
        if len(top) > 1 and len(set((f.name, f.header) for f in top)) == 1:
            top = top[:1]     # const fns are printed twice
        if len(top) > 1:
            # generic-argument based disambiguation is beyond this resolver
            raise Unsupported(f"ambiguous resolution of {text[:100]}: {[f.name for f in top][:4]}")
        return top[0]


def _module_of(path):
    if not path:
        return None
    p = strip_generics(re.sub(r"'\w+ ?", '', path)).replace('dyn ', '').strip()
    parts = p.split('::')
    return parts[-2] if len(parts) >= 2 and parts[-2][:1].islower() else None


def _split_generics(g):
    out = []
    depth = 0
    cur = ''
    for i, c in enumerate(g):
        if c in '<(':
            depth += 1
        elif c in '>)' and (i == 0 or g[i - 1] != '-'):
            depth -= 1
        if c == ',' and depth == 0:
            out.append(cur.strip())
            cur = ''
        else:
            cur += c
    if cur.strip():
        out.append(cur.strip())
    return out
