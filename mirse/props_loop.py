"""Trace properties of the actor event loop (evaluated on every symbolic path of scen_loop).

A trace is the list of environment-visible events of one path; `cfg` carries the symbolic configuration of the path
(z3 expressions for timeout.is_some / fail_on_timeout evaluated under the path condition by the caller).
Each checker returns a list of violation strings (empty = holds on this path).
"""


def _idx(tr, pred, start=0):
    for i in range(start, len(tr)):
        if pred(tr[i]):
            return i
    return None


def _all(tr, pred):
    return [i for i, e in enumerate(tr) if pred(e)]


CALLBACK_CALLS = ('call_started', 'call_stopped', 'call_task', 'call_item', 'call_finished')


def sequential(tr):
    """C01/C03: user callbacks never overlap: between the call of a callback and its completion (or abandonment) no
    other callback is called.  Completion events: *_poll ready/ok/err/panic; abandonment of a task: drop of its
    timeout_fut (only tasks can be abandoned)."""
    v = []
    open_cb = None
    for i, e in enumerate(tr):
        k = e[0]
        if k in CALLBACK_CALLS:
            if open_cb is not None:
                v.append(f"callback {e} starts while {open_cb} is still running")
            open_cb = e
        elif k.endswith('_poll') and k[:-5] in ('started', 'stopped', 'task', 'item', 'finished') and e[2] in ('ready', 'ok', 'err', 'panic'):
            if open_cb is None or open_cb[0] != 'call_' + k[:-5] or open_cb[1] != e[1]:
                v.append(f"completion {e} without matching open call ({open_cb})")
            open_cb = None
        elif ((k == 'drop' and 'timeout_fut' in e[1]) or (k == 'abandon' and e[1] == 'task')) and open_cb is not None and open_cb[0] == 'call_task':
            open_cb = None      # abandoned by timeout (the value that owns the started handler future is dropped)
        elif k in ('unwind_from',):
            open_cb = None
    return v


def lifecycle(tr, status, stream=False, strategy='RestartOnly'):
    """C03: started once and completed before anything is handled; graceful end => [finished] stopped exactly once
    after the last handler, nothing afterwards; started error => nothing handled, failed."""
    v = []
    cbs = [(i, e) for i, e in enumerate(tr) if e[0] in CALLBACK_CALLS]
    if not cbs:
        return v
    if cbs[0][1][0] != 'call_started':
        v.append(f"first callback is {cbs[0][1]}, not started")
    # nothing is dequeued / handled before the first started completed ok
    first_ok = _idx(tr, lambda e: e[0] == 'started_poll' and e[2] in ('ok', 'err', 'panic'))
    early = _idx(tr, lambda e: e[0] in ('next', 'stream_next', 'call_task', 'call_item'))
    if early is not None and (first_ok is None or early < first_ok):
        v.append(f"{tr[early]} before started completed")
    # per incarnation protocol
    # split the trace at started calls
    inc_starts = _all(tr, lambda e: e[0] == 'call_started')
    for j, s in enumerate(inc_starts):
        end = inc_starts[j + 1] if j + 1 < len(inc_starts) else len(tr)
        seg = tr[s:end]
        res = [e for e in seg if e[0] == 'started_poll' and e[2] in ('ok', 'err', 'panic')]
        if not res:
            continue    # path ended (bound) while started pending
        handled = [e for e in seg if e[0] in ('call_task', 'call_item')]
        stopped = [e for e in seg if e[0] == 'call_stopped']
        finished = [e for e in seg if e[0] == 'call_finished']
        if res[0][2] in ('err', 'panic'):
            if handled:
                v.append(f"incarnation {j+1}: started failed but {handled[0]} was handled")
            if stopped or finished:
                v.append(f"incarnation {j+1}: started failed but {(stopped + finished)[0]} was called")
            if any(e[0] == 'notify_send' for e in seg):
                v.append(f"incarnation {j+1}: started failed but termination was announced as graceful")
            if status == 'returned' and ('return', 'ok') in seg:
                v.append(f"incarnation {j+1}: started failed but the loop returned Ok")
            continue
        if len(stopped) > 1:
            v.append(f"incarnation {j+1}: stopped called {len(stopped)} times")
        if len(finished) > 1:
            v.append(f"incarnation {j+1}: finished called {len(finished)} times")
        if stopped:
            si = seg.index(stopped[0])
            late = [e for e in seg[si + 1:] if e[0] in ('call_task', 'call_item', 'call_finished')]
            if late:
                v.append(f"incarnation {j+1}: {late[0]} after stopped")
            if stream:
                if not finished or seg.index(finished[0]) > si:
                    v.append(f"incarnation {j+1}: stopped without preceding finished")
            elif finished:
                v.append(f"incarnation {j+1}: finished called on a plain actor")
    # graceful end of the whole loop: the last incarnation got stopped
    if status == 'returned' and ('return', 'ok') in tr:
        last_s = inc_starts[-1] if inc_starts else 0
        seg = tr[last_s:]
        if not any(e[0] == 'call_stopped' for e in seg):
            v.append("loop returned Ok but the last incarnation never got stopped()")
        if not any(e[0] == 'stopped_poll' and e[2] == 'ready' for e in seg):
            v.append("loop returned Ok before stopped() completed")
    return v


def announce(tr, status):
    """C04/C02: the stop notifier fires only after stopped() completed, exactly when the loop ends Ok; on every
    failing end it is dropped un-notified (awaiters see an error); mailbox and context are dropped on every end."""
    v = []
    sends = _all(tr, lambda e: e[0] == 'notify_send')
    ret_ok = ('return', 'ok') in tr
    ret_err = ('return', 'err') in tr
    ended = status in ('returned', 'panicked') and (ret_ok or ret_err or status == 'panicked')
    if len(sends) > 1:
        v.append("notifier fired more than once")
    if sends:
        last_stop_done = None
        for i in range(sends[0] - 1, -1, -1):
            if tr[i][0] == 'stopped_poll' and tr[i][2] == 'ready':
                last_stop_done = i
                break
            if tr[i][0] in ('call_task', 'call_item', 'call_started', 'next', 'stream_next'):
                break
        if last_stop_done is None:
            v.append("notifier fired without a completed stopped() immediately before it")
        if any(e[0] in CALLBACK_CALLS for e in tr[sends[0]:]):
            v.append("callback after the notifier fired")
    if ended:
        if ret_ok and not sends:
            v.append("loop ended Ok without announcing termination")
        if (ret_err or status == 'panicked') and sends:
            v.append("failed termination announced as graceful (notifier fired)")
        if (ret_err or status == 'panicked') and not sends and not any(e[0] == 'drop' and 'StopNotifier' in e[1] for e in tr):
            v.append("failed termination: notifier neither fired nor dropped (awaiters would hang)")
        if not any(e[0] == 'drop' and ('PollFn' in e[1] or 'PayloadStream' in e[1]) for e in tr):
            v.append("loop ended without dropping the mailbox receiver (pending callers would hang)")
        if not any(e[0] == 'drop' and 'Context' in e[1] for e in tr):
            v.append("loop ended without dropping the context (timers/children not released)")
    return v


def stop_barrier(tr):
    """C04: once Stop is dequeued nothing else is dequeued or handled; the loop proceeds to stopped()."""
    v = []
    i = _idx(tr, lambda e: e[0] == 'next' and e[1] == 'stop')
    if i is None:
        return v
    late = [e for e in tr[i + 1:] if e[0] in ('next', 'call_task', 'call_item', 'call_started', 'refresh_call')]
    if late:
        v.append(f"{late[0]} after Stop was dequeued")
    rest = tr[i + 1:]
    if any(e[0] == 'return' for e in rest) and not any(e[0] == 'call_stopped' for e in rest):
        v.append("Stop dequeued but stopped() was not called before the loop returned")
    return v


def restart(tr, strategy):
    """C07: a Restart request is handled by the strategy: default = stopped then started on the same value,
    recreate = stopped, Default::default(), started; non-restartable = ignored; a started error ends the actor as
    failed; afterwards the loop keeps dequeuing."""
    v = []
    for i in _all(tr, lambda e: e[0] == 'next' and e[1] == 'restart'):
        rest = tr[i + 1:]
        nxt = _idx(rest, lambda e: e[0] in ('next', 'return', 'stream_next'))
        seg = rest[:nxt] if nxt is not None else rest
        names = [e[0] for e in seg if e[0] in CALLBACK_CALLS + ('default_actor', 'refresh_call')]
        complete = nxt is not None
        if strategy == 'NonRestartable':
            if any(n in ('call_stopped', 'call_started', 'default_actor') for n in names):
                v.append(f"non-restartable actor reacted to a restart request: {names}")
            continue
        want = ['refresh_call', 'call_stopped', 'call_started'] if strategy == 'RestartOnly' else \
            ['refresh_call', 'call_stopped', 'default_actor', 'call_started']
        if complete or len(names) >= len(want):
            if names[:len(want)] != want:
                v.append(f"restart ({strategy}) produced {names}, expected {want}")
        if strategy == 'RestartOnly' and 'default_actor' in names:
            v.append("default strategy replaced the actor value")
        # started error => failed
        st_res = [e for e in seg if e[0] == 'started_poll' and e[2] in ('ok', 'err')]
        if st_res and st_res[0][2] == 'err' and complete:
            after = rest[nxt]
            if after != ('return', 'err'):
                v.append(f"started failed during restart but the loop continued with {after}")
        if st_res and st_res[0][2] == 'ok' and complete and rest[nxt][0] == 'return':
            v.append(f"restart succeeded but the loop ended with {rest[nxt]}")
    return v


def timeouts(tr, has_timeout, fail_on_timeout):
    """C11.  has_timeout / fail_on_timeout: True/False (decided by z3 on this path) or None (unconstrained)."""
    v = []
    for i in _all(tr, lambda e: e[0] == 'call_task'):
        n = tr[i][1]
        rest = tr[i + 1:]
        endi = _idx(rest, lambda e: e[0] in ('next', 'return', 'call_stopped', 'stream_next'))
        seg = rest[:endi] if endi is not None else rest
        if any(e[0] == 'unwind_from' for e in seg):
            continue   # the handler panicked: covered by C06, not a timeout question
        delay = [e for e in seg if e[0] == 'delay_new']
        if has_timeout is False and delay:
            v.append(f"task {n}: a timer was armed although no timeout is configured")
        if has_timeout is True and not delay and any(e[0] == 'task_poll' for e in seg):
            v.append(f"task {n}: timeout configured but the handler was polled without a timer")
        done = _idx(seg, lambda e: e[0] == 'task_poll' and e[1] == n and e[2] == 'ready')
        fired = _idx(seg, lambda e: e[0] == 'delay_poll' and e[2] == 'ready')
        abandoned = _idx(seg, lambda e: (e[0] == 'drop' and 'timeout_fut' in e[1]) or (e[0] == 'abandon' and e[1] == 'task' and e[2] == n))
        if has_timeout is False and abandoned is not None and done is None:
            v.append(f"task {n} abandoned although no timeout is configured")
        if done is not None and fired is not None and fired < done:
            v.append(f"task {n}: handler polled to completion after the timer had already fired")
        if fired is not None and (done is None or fired < done):
            # abandoned: no further polls of this task
            later = [e for e in seg[fired + 1:] if e[0] == 'task_poll' and e[1] == n]
            if later:
                v.append(f"task {n} polled again after its timeout fired")
            if endi is not None:
                after = rest[endi]
                if fail_on_timeout is True and after != ('return', 'err'):
                    v.append(f"task {n} timed out with fail_on_timeout but the loop went on with {after}")
                if fail_on_timeout is False and after[0] == 'return':
                    v.append(f"task {n} timed out without fail_on_timeout but the loop ended with {after}")
        if done is not None and (fired is None or done < fired) and endi is not None:
            if rest[endi] == ('return', 'err'):
                v.append(f"task {n} completed in time but the loop failed")
    return v


def stream_items(tr):
    """C13: every item the stream yields is handled exactly once, in order, to completion; stream end => graceful end"""
    v = []
    items = [e[2] for e in tr if e[0] == 'stream_next' and e[1] == 'item']
    handled = [e[1] for e in tr if e[0] == 'call_item']
    ended = any(e[0] == 'return' for e in tr) or any(e[0] == 'call_finished' for e in tr)
    if handled != items[:len(handled)]:
        v.append(f"items handled {handled} but stream yielded {items}")
    if ended and len(handled) != len(items):
        v.append(f"stream yielded {len(items)} items but {len(handled)} were handled before the end")
    i = _idx(tr, lambda e: e[0] == 'stream_next' and e[1] == 'end')
    if i is not None:
        late = [e for e in tr[i + 1:] if e[0] in ('call_item', 'call_task', 'next', 'stream_next')]
        if late:
            v.append(f"{late[0]} after the stream ended")
    return v
