"""Python models of the core / alloc / futures functions that hannibal's MIR calls and whose behaviour
matters for control flow.  Every model is listed in the evidence ("modelled") so that the trusted base is explicit.
Everything not modelled and not inlined is an opaque event (fresh result, &mut arguments havocked).
"""
import re
import z3
from engine import (Engine, State, VSym, VAgg, VScalar, VRef, VConst, UNIT, Unsupported, strip_generics,
                    _describe, _callee_short)


def R(p):
    return re.compile(p, re.S)


def m_false(e, st, fr, t, args):
    return VScalar(False)


def m_ident(e, st, fr, t, args):
    return args[0]


def m_unit(e, st, fr, t, args):
    return UNIT


# ---- Try / FromResidual for Result and Option ---------------------------------------------------
def _outer_type(func):
    """`<std::option::Option<JoinHandle<Result<..>>> as Try>::branch` -> 'Option' (the outermost type constructor)"""
    s = func.lstrip('<').lstrip('&').strip()
    head = re.split(r'[<( ]', s, 1)[0]
    return head.split('::')[-1]


def m_try_branch(e, st, fr, t, args):
    r = args[0]
    outer = _outer_type(t.func)
    if outer == 'Result':
        ok, err = ('v', 'Ok', 0), ('v', 'Err', 0)
        d = e.discriminant_of(st, r).v
        brk = VAgg(name='Result', vname='Err', disc=1, fields={err: e.get_field(r, err)})
        return VAgg(name='ControlFlow', disc=d, fields={('v', 'Continue', 0): e.get_field(r, ok), ('v', 'Break', 0): brk})
    if outer == 'Option':
        d = e.discriminant_of(st, r).v
        # Option: None=0 -> Break(None), Some=1 -> Continue(v)
        dd = 1 - d if isinstance(d, int) else z3.simplify(1 - d)
        return VAgg(name='ControlFlow', disc=dd, fields={('v', 'Continue', 0): e.get_field(r, ('v', 'Some', 0)),
                                                           ('v', 'Break', 0): VAgg(name='Option', vname='None', disc=0)})
    return NotImplemented


def m_from_residual(e, st, fr, t, args):
    r = args[0]
    outer = _outer_type(t.func)
    if outer == 'Result':
        err = ('v', 'Err', 0)
        return VAgg(name='Result', vname='Err', disc=1, fields={err: e.get_field(r, err)})
    if outer == 'Option':
        return VAgg(name='Option', vname='None', disc=0)
    return NotImplemented


# ---- futures adapters ---------------------------------------------------------------------------
def m_map(e, st, fr, t, args):
    return VAgg(name='Map', fields={('f', 0): args[0], ('f', 1): args[1]}, extra={'done': False})


def m_fuse(e, st, fr, t, args):
    return VAgg(name='Fuse', fields={('f', 0): args[0]}, extra={'terminated': False})


def m_wake_by_ref(e, st, fr, t, args):
    """cx.waker().wake_by_ref() inside a poll: the task wakes itself, i.e. it stays runnable whatever it blocks on"""
    st.meta['self_wake'] = True
    st.event('self_wake')
    return UNIT


def m_poll_fn(e, st, fr, t, args):
    return VAgg(name='PollFn', fields={('f', 0): args[0]})


def _target_of_pin(e, st, v):
    """Pin<&mut T> / &mut T -> VRef to T"""
    if isinstance(v, VRef):
        return v
    if isinstance(v, VAgg) and ('f', 0) in v.fields:
        return _target_of_pin(e, st, v.fields[('f', 0)])
    if isinstance(v, VSym):
        return e._pointer_target(st, v)
    raise Unsupported(f"pin target {v!r}")


def peel(e, st, v):
    """follow references / Pin / Box wrappers; returns a VRef to the innermost non-pointer value"""
    ref = _target_of_pin(e, st, v)
    for _ in range(8):
        cur = _load(e, st, ref)
        if isinstance(cur, VRef):
            ref = cur
        elif isinstance(cur, VAgg) and cur.name in ('Pin', 'Box') and ('f', 0) in cur.fields:
            ref = _target_of_pin(e, st, cur)
        else:
            return ref
    raise Unsupported("pointer chain too deep")


def _load(e, st, ref):
    return e.get_path(st, e.root_get(st, ref.root), ref.path)


def _store(e, st, ref, val):
    e.root_set(st, ref.root, e.set_path(st, e.root_get(st, ref.root), ref.path, val))


def _apply_transforms(e, st, pv, transforms):
    """pv: Poll value produced by the innermost future; transforms innermost-first: ('map', f) | ('fuse', ref)"""
    for tr in transforms:
        d = e.discriminant_of(st, pv).v
        if not isinstance(d, int):
            raise Unsupported("symbolic poll result under Map/Fuse")
        if d != 0:
            continue
        if tr[0] in ('wrap_ok', 'catch'):
            pv = VAgg(name='Poll', vname='Ready', disc=0, fields={('v', 'Ready', 0): VAgg(name='Result', vname='Ok', disc=0, fields={('v', 'Ok', 0): e.get_field(pv, ('v', 'Ready', 0))})})
        elif tr[0] == 'map':
            pv = VAgg(name='Poll', vname='Ready', disc=0,
                      fields={('v', 'Ready', 0): apply_fn_item(e, st, tr[1], e.get_field(pv, ('v', 'Ready', 0)))})
        elif tr[0] == 'fuse':
            cur = _load(e, st, tr[1])
            _store(e, st, tr[1], VAgg(name='Fuse', fields=cur.fields, extra={'terminated': True}))
        elif tr[0] == 'stream_fuse':
            inner = e.get_field(pv, ('v', 'Ready', 0))
            di = e.discriminant_of(st, inner).v
            if not isinstance(di, int):
                raise Unsupported("symbolic stream item under StreamExt::fuse")
            if di == 0:
                cur = _load(e, st, tr[1])
                _store(e, st, tr[1], VAgg(name='StreamFuse', fields=cur.fields, extra={'done': True}))
    return pv


def poll_into(e, st, ref, cx, t, transforms=()):
    """poll the future at `ref`, deliver the (transformed) Poll value to t.dest and continue at t.target.
    Returns None (same state continues) or a list of successor states."""
    fut = _load(e, st, ref)
    if isinstance(fut, VAgg) and fut.name == 'Map':
        return poll_into(e, st, VRef(ref.root, ref.path + (('f', 0),), True), cx, t, (('map', fut.fields[('f', 1)]),) + tuple(transforms))
    if isinstance(fut, VAgg) and fut.name == 'Fuse':
        if fut.extra.get('terminated'):
            pv = _apply_transforms(e, st, VAgg(name='Poll', vname='Pending', disc=1), transforms)
            f2 = st.frames[-1]
            e.write_place(st, f2, t.dest, pv)
            f2.bb = t.target
            return None
        return poll_into(e, st, VRef(ref.root, ref.path + (('f', 0),), True), cx, t, (('fuse', ref),) + tuple(transforms))
    if isinstance(fut, VAgg) and fut.name in ('Box', 'Pin') and ('f', 0) in fut.fields:
        return poll_into(e, st, _target_of_pin(e, st, fut), cx, t, transforms)
    if isinstance(fut, VRef):
        return poll_into(e, st, fut, cx, t, transforms)
    if isinstance(fut, VAgg) and fut.name == 'CatchUnwind':
        # futures::future::CatchUnwind<AssertUnwindSafe<F>>: Ready(v) -> Ready(Ok(v)); an unwind out of the inner poll is
        # caught at this boundary and becomes Ready(Err(payload)) (see c_catch_unwind / Engine.do_unwind)
        return poll_into(e, st, VRef(ref.root, ref.path + (('f', 0),), True), cx, t, (('catch',),) + tuple(transforms))
    if isinstance(fut, VAgg) and fut.name == 'AssertUnwindSafe' and ('f', 0) in fut.fields:
        return poll_into(e, st, VRef(ref.root, ref.path + (('f', 0),), True), cx, t, transforms)
    if isinstance(fut, VAgg) and fut.name == 'ReadyFuture':
        # std::future::ready(x): Ready(x) at the first poll
        pv = _apply_transforms(e, st, VAgg(name='Poll', vname='Ready', disc=0, fields={('v', 'Ready', 0): fut.fields[('f', 0)]}), transforms)
        f2 = st.frames[-1]
        e.write_place(st, f2, t.dest, pv)
        f2.bb = t.target
        return None
    if isinstance(fut, VAgg) and fut.name == 'Abortable':
        fp = st.meta.get('fp')
        if fp is not None:
            st.meta['fp'] = fp | {(fut.extra['oid'], False)}     # reads the abort flag (partial-order reduction footprint)
        flag = st.objs[fut.extra['oid']].extra
        if flag['aborted']:
            pv = VAgg(name='Poll', vname='Ready', disc=0, fields={('v', 'Ready', 0): VAgg(name='Result', vname='Err', disc=1, fields={('v', 'Err', 0): VAgg(name='Aborted')})})
            pv = _apply_transforms(e, st, pv, transforms)
            f2 = st.frames[-1]
            e.write_place(st, f2, t.dest, pv)
            f2.bb = t.target
            return None
        st.meta['blocked_on'] = st.meta.get('blocked_on', frozenset()) | {fut.extra['oid']}
        return poll_into(e, st, VRef(ref.root, ref.path + (('f', 0),), True), cx, t, (('wrap_ok',),) + tuple(transforms))
    fn = None
    if isinstance(fut, VAgg) and fut.extra and fut.extra.get('body') is not None:
        fn = fut.extra['body']
    if fn is None and isinstance(fut, VAgg) and fut.name == 'StreamNext':
        # Next<'_, PollFn<Box<dyn FnMut>>>: poll the stream = call the boxed closure
        sref = peel(e, st, fut.fields[('f', 0)])
        pf = _load(e, st, sref)
        # stream Fuse wrappers (StreamExt::fuse): once the inner stream ended, Ready(None) without polling it again
        while isinstance(pf, VAgg) and pf.name == 'StreamFuse':
            if pf.extra.get('done'):
                pv = _apply_transforms(e, st, VAgg(name='Poll', vname='Ready', disc=0, fields={('v', 'Ready', 0): VAgg(name='Option', vname='None', disc=0)}), transforms)
                f2 = st.frames[-1]
                e.write_place(st, f2, t.dest, pv)
                f2.bb = t.target
                return None
            transforms = (('stream_fuse', sref),) + tuple(transforms)
            sref = peel(e, st, VRef(sref.root, sref.path + (('f', 0),), True))
            pf = _load(e, st, sref)
        if isinstance(pf, VAgg) and pf.name == 'PollFn':
            cref = peel(e, st, pf.fields[('f', 0)])
            clo = _load(e, st, cref)
            body = e.resolve_closure(st, clo)
            if not transforms:
                e.push_call(st, body, [VRef(cref.root, cref.path, True), cx], ret_dest=t.dest, ret_bb=t.target, unwind_bb=t.unwind)
                return None
            st.meta['conts'] = st.meta.get('conts', []) + [(_cont_tag(transforms), (t.dest, t.target, tuple(transforms)))]
            e.push_call(st, body, [VRef(cref.root, cref.path, True), cx], ret_dest=None, ret_bb=-1, unwind_bb=t.unwind, tag='cont')
            return None
    if fn is None and isinstance(fut, VAgg) and fut.name == 'PollFn':
        clo_ref = VRef(ref.root, ref.path + (('f', 0),), True)
        clo = _load(e, st, clo_ref)
        if isinstance(clo, VAgg) and (clo.name or '').startswith('{closure'):
            body = e.resolve_closure(st, clo)
            if not transforms:
                e.push_call(st, body, [clo_ref, cx], ret_dest=t.dest, ret_bb=t.target, unwind_bb=t.unwind)
                return None
            st.meta['conts'] = st.meta.get('conts', []) + [(_cont_tag(transforms), (t.dest, t.target, tuple(transforms)))]
            e.push_call(st, body, [clo_ref, cx], ret_dest=None, ret_bb=-1, unwind_bb=t.unwind, tag='cont')
            return None
    if fn is None and hasattr(e, 'resolve_future_impl'):
        fn = e.resolve_future_impl(st, fut)
    if fn is not None:
        pin = VAgg(name='Pin', fields={('f', 0): VRef(ref.root, ref.path, True)})
        if not transforms:
            e.push_call(st, fn, [pin, cx], ret_dest=t.dest, ret_bb=t.target, unwind_bb=t.unwind)
            return None
        st.meta['conts'] = st.meta.get('conts', []) + [(_cont_tag(transforms), (t.dest, t.target, tuple(transforms)))]
        e.push_call(st, fn, [pin, cx], ret_dest=None, ret_bb=-1, unwind_bb=t.unwind, tag='cont')
        return None
    if not hasattr(e, 'leaf_poll'):
        raise Unsupported(f"no leaf_poll hook for {fut!r}")
    if any(tr[0] == 'catch' for tr in transforms):
        raise Unsupported("catch_unwind directly around a leaf future")
    res = []
    for s2, pv in e.leaf_poll(st, ref, fut):
        if s2.meta.get('panic_now'):
            res.append(s2)
            continue
        pv = _apply_transforms(e, s2, pv, transforms)
        f2 = s2.frames[-1]
        e.write_place(s2, f2, t.dest, pv)
        f2.bb = t.target
        res.append(s2)
    return res


def _cont_tag(transforms):
    return 'catch_unwind' if any(tr[0] == 'catch' for tr in transforms) else 'poll_result'


def c_catch_unwind(e, st, data, rv):
    """the poll under a CatchUnwind returned (rv is its Poll value) or unwound (rv is None)"""
    if rv is not None:
        return c_poll_result(e, st, data, rv)
    dest, target, transforms = data
    i = next(k for k, tr in enumerate(transforms) if tr[0] == 'catch')
    st.event('unwind_caught', 'catch_unwind')
    pv = VAgg(name='Poll', vname='Ready', disc=0, fields={('v', 'Ready', 0): VAgg(name='Result', vname='Err', disc=1, fields={('v', 'Err', 0): VAgg(name='PanicPayload')})})
    pv = _apply_transforms(e, st, pv, transforms[i + 1:])
    f2 = st.frames[-1]
    e.write_place(st, f2, dest, pv)
    f2.bb = target
    return None


def c_poll_result(e, st, data, rv):
    dest, target, transforms = data
    pv = _apply_transforms(e, st, rv, transforms)
    f2 = st.frames[-1]
    e.write_place(st, f2, dest, pv)
    f2.bb = target
    return None


def apply_fn_item(e, st, f, x):
    txt = f.text if isinstance(f, VConst) else ''
    s = strip_generics(txt)
    if s.endswith('Result::Ok'):
        return VAgg(name='Result', vname='Ok', disc=0, fields={('v', 'Ok', 0): x})
    if s.endswith('Result::Err'):
        return VAgg(name='Result', vname='Err', disc=1, fields={('v', 'Err', 0): x})
    if s.endswith('Option::Some'):
        return VAgg(name='Option', vname='Some', disc=1, fields={('v', 'Some', 0): x})
    if re.match(r'^(std::mem::)?drop::<', txt.strip()):
        if hasattr(e, 'dropper'):
            e.dropper.drop(st, x, 'mapped through mem::drop')
        return UNIT
    m = re.search(r'__PrivResult(?:::<.*>)?::_(\d+)$', txt, re.S)
    if m:
        return VAgg(name='__PrivResult', vname=f"_{m.group(1)}", disc=int(m.group(1)), fields={('v', f"_{m.group(1)}", 0): x})
    body, clo = closure_body_of(e, st, f)
    if body is not None:
        # only closures whose body is trivially `()` (e.g. `|_| ()`) can be applied without a frame
        blocks = [b for b in body.blocks.values() if not b.cleanup]
        calls = [b for b in blocks if b.term is not None and b.term.kind == 'call']
        assigns0 = [st_ for b in blocks for st_ in b.stmts if st_.kind == 'assign' and st_.place.local == 0]
        if not calls and body.ret_type.strip() == '()' and all(a.rv.kind in ('tuple', 'use') for a in assigns0):
            return UNIT
        if hasattr(e, 'sys') and hasattr(e.sys, 'call_closure_sync'):
            # any other closure: run its MIR body to completion (must not fork)
            return e.sys.call_closure_sync(st, f, [x])
    raise Unsupported(f"apply fn item {txt[:80]!r}")


def m_future_poll(e, st, fr, t, args):
    """<X as Future>::poll(pin, cx): coroutines / poll_fn closures with a MIR body are inlined, adapters (Map, Fuse)
    are modelled, leaf futures go to the harness' leaf_poll hook (eager fork over outcomes)."""
    ref = peel(e, st, args[0])
    fut = _load(e, st, ref)
    if not (isinstance(fut, VAgg) and fut.extra and fut.extra.get('body') is not None):
        fn = e.resolve_poll_body(st, fr, t, fut)
        if fn is not None:
            e.push_call(st, fn, [VAgg(name='Pin', fields={('f', 0): VRef(ref.root, ref.path, True)}), args[1]],
                        ret_dest=t.dest, ret_bb=t.target, unwind_bb=t.unwind)
            return None
    return poll_into(e, st, ref, args[1], t)


def m_is_terminated(e, st, fr, t, args):
    ref = peel(e, st, args[0])
    fut = _load(e, st, ref)
    if isinstance(fut, VAgg) and fut.name == 'Fuse':
        return VScalar(bool(fut.extra.get('terminated')))
    if isinstance(fut, VAgg) and fut.name == 'StreamNext':
        sf = _load(e, st, peel(e, st, fut.fields[('f', 0)]))
        if isinstance(sf, VAgg) and sf.name == 'StreamFuse':
            return VScalar(bool(sf.extra.get('done')))
    if isinstance(fut, VAgg) and fut.name == 'StreamFuse':
        return VScalar(bool(fut.extra.get('done')))
    return NotImplemented


def m_poll_map(e, st, fr, t, args):
    """Poll::<T>::map(p, f)"""
    pv, f = args
    d = e.discriminant_of(st, pv).v
    x = e.get_field(pv, ('v', 'Ready', 0))
    body, clo = closure_body_of(e, st, f)
    if body is not None:
        if not isinstance(d, int):
            raise Unsupported("Poll::map with a closure on a symbolic Poll")
        if d == 1:
            return VAgg(name='Poll', vname='Pending', disc=1)
        co = st.alloc(clo)
        st.meta['conts'] = st.meta.get('conts', []) + [('wrap_ready', (t.dest, t.target))]
        first = VRef(('obj', co), (), True) if body.arg_types[0].startswith('&') else clo
        e.push_call(st, body, [first, x], ret_dest=None, ret_bb=-1, unwind_bb=t.unwind, tag='cont')
        return None
    return VAgg(name='Poll', disc=d, fields={('v', 'Ready', 0): apply_fn_item(e, st, f, x)})


def c_wrap_ready(e, st, data, rv):
    dest, target = data
    f = st.frames[-1]
    e.write_place(st, f, dest, VAgg(name='Poll', vname='Ready', disc=0, fields={('v', 'Ready', 0): rv}))
    f.bb = target
    return None


# ---- slices / arrays (select!'s shuffle + iteration) ----------------------------------------------
def m_shuffle(e, st, fr, t, args):
    """futures_util::async_await::random::shuffle(&mut [a, b]): any permutation.  For 2 elements: symbolic swap."""
    ref = _target_of_pin(e, st, args[0])
    arr = _load(e, st, ref)
    if not (isinstance(arr, VAgg) and arr.name == 'array'):
        raise Unsupported(f"shuffle of {arr!r}")
    n = arr.extra['len']
    if n == 1:
        return UNIT
    if n != 2:
        raise Unsupported("shuffle of >2 select! branches")
    s2 = st.clone()
    s2.choices.append(('select_order', 'swapped'))
    s2.event('select_order', 'swapped')
    a, b = arr.fields[('f', 0)], arr.fields[('f', 1)]
    _store(e, s2, ref, VAgg(name='array', fields={('f', 0): b, ('f', 1): a}, extra={'len': 2}))
    st.choices.append(('select_order', 'as_written'))
    st.event('select_order', 'as_written')
    for s in (st, s2):
        f = s.frames[-1]
        e.write_place(s, f, t.dest, UNIT)
        f.bb = t.target
    return [st, s2]


def m_into_iter_slice(e, st, fr, t, args):
    ref = _target_of_pin(e, st, args[0])
    return VAgg(name='IterMut', fields={('f', 0): ref}, extra={'idx': 0})


def m_itermut_next(e, st, fr, t, args):
    itref = _target_of_pin(e, st, args[0])
    it = _load(e, st, itref)
    if not (isinstance(it, VAgg) and it.name == 'IterMut'):
        return NotImplemented
    arr_ref = it.fields[('f', 0)]
    arr = _load(e, st, arr_ref)
    n = arr.extra['len']
    i = it.extra['idx']
    if i >= n:
        return VAgg(name='Option', vname='None', disc=0)
    _store(e, st, itref, VAgg(name='IterMut', fields=it.fields, extra={'idx': i + 1}))
    elem_ref = VRef(arr_ref.root, arr_ref.path + (('f', i),), True)
    return VAgg(name='Option', vname='Some', disc=1, fields={('v', 'Some', 0): elem_ref})


def m_dyn_fnmut_call(e, st, fr, t, args):
    """<&mut dyn FnMut(..) as FnMut>::call_mut(&mut f, (args..)) where f is a reference to a closure with MIR body"""
    fref = args[0]
    v = fref
    # peel references until we reach the closure aggregate
    for _ in range(4):
        if isinstance(v, VRef):
            tgt = v
            v = _load(e, st, v)
        else:
            break
    if not (isinstance(v, VAgg) and (v.name or '').startswith('{closure')):
        return NotImplemented
    body = e.resolve_closure(st, v)
    tup = args[1]
    call_args = [tgt] + [tup.fields[('f', i)] for i in range(len(tup.fields))]
    e.push_call(st, body, call_args, ret_dest=t.dest, ret_bb=t.target, unwind_bb=t.unwind)
    return None


# ---- Option helpers -----------------------------------------------------------------------------
def m_option_take(e, st, fr, t, args):
    ref = _target_of_pin(e, st, args[0])
    old = _load(e, st, ref)
    _store(e, st, ref, VAgg(name='Option', vname='None', disc=0))
    return old


def m_mem_replace(e, st, fr, t, args):
    ref = _target_of_pin(e, st, args[0])
    old = _load(e, st, ref)
    _store(e, st, ref, args[1])
    return old


def m_box_new(e, st, fr, t, args):
    oid = st.alloc(args[0])
    return VAgg(name='Box', fields={('f', 0): VRef(('obj', oid), (), True)})


def m_deref(e, st, fr, t, args):
    """<Box<T>/Arc<T>/&T as Deref>::deref(&x) -> &T"""
    v = args[0]
    inner = _load(e, st, v) if isinstance(v, VRef) else v
    if isinstance(inner, VAgg) and inner.name in ('Box', 'Pin') and ('f', 0) in inner.fields:
        return inner.fields[('f', 0)]
    return NotImplemented


def closure_body_of(e, st, clo):
    """MIR body of a closure value (aggregate with upvars, or a zero-sized closure constant)"""
    if isinstance(clo, VAgg) and (clo.name or '').startswith('{closure'):
        return e.resolve_closure(st, clo), clo
    if isinstance(clo, VConst):
        m = re.search(r'\{closure@([^}]*)\}', clo.text)
        if m:
            span = m.group(1)
            c = [f for f in e.functions if f.nargs >= 1 and ('{closure@' + span + '}') in f.arg_types[0]]
            if len(c) == 1:
                return c[0], VAgg(name='{closure@' + span + '}', fields={})
            raise Unsupported(f"closure constant resolution: {len(c)} candidates for {span}")
    return None, None


def m_option_filter(e, st, fr, t, args):
    """Option::<T>::filter(opt, pred): None stays None; Some(x) -> pred(&x) ? Some(x) : None  (pred inlined)"""
    opt, pred = args
    body, clo = closure_body_of(e, st, pred)
    if body is None:
        return NotImplemented
    d = e.discriminant_of(st, opt).v
    outs = []
    alts = []
    for val in (0, 1):
        cons = None
        if isinstance(d, int):
            if d != val:
                continue
        else:
            cons = d == val
            if not e.feasible(st, cons):
                continue
        alts.append((val, cons))
    states = [st.clone() for _ in alts[:-1]] + [st]
    for s2, (val, cons) in zip(states, alts):
        if cons is not None:
            s2.pc.append(cons)
        f2 = s2.frames[-1]
        if val == 0:
            e.write_place(s2, f2, t.dest, VAgg(name='Option', vname='None', disc=0))
            f2.bb = t.target
        else:
            x = e.get_field(opt, ('v', 'Some', 0))
            xo = s2.alloc(x)
            co = s2.alloc(clo)
            # continuation: a tiny synthetic frame is avoided by remembering the pending filter in meta
            s2.meta['filter_stack'] = s2.meta.get('filter_stack', []) + [(f2.fid, t.dest, t.target, x)]
            e.push_call(s2, body, [VRef(('obj', co), (), True), VRef(('obj', xo), (), False)], ret_dest=None, ret_bb=-1,
                        unwind_bb=t.unwind, tag='filter_pred')
        outs.append(s2)
    return outs


def install_common(eng: Engine):
    eng.conts['poll_result'] = c_poll_result
    eng.conts['catch_unwind'] = c_catch_unwind
    eng.conts['wrap_ready'] = c_wrap_ready
    M = eng.models
    M.append((R(r'<Level as PartialOrd<LevelFilter>>::le'), m_false))
    M.append((R(r'IntoFuture>::into_future$'), m_ident))
    M.append((R(r'^Pin::<.*>::new_unchecked$'), m_ident))
    M.append((R(r'^Pin::<.*>::new$'), m_ident))
    M.append((R(r'^Pin::<.*>::(get_mut|get_unchecked_mut|into_inner|get_ref)$'), lambda e, st, fr, t, a: _target_of_pin(e, st, a[0])))
    M.append((R(r'^Pin::<.*>::as_mut$'), lambda e, st, fr, t, a: _target_of_pin(e, st, _load(e, st, a[0]) if isinstance(a[0], VRef) else a[0])))
    M.append((R(r'^<Pin<.*> as Deref(Mut)?>::deref(_mut)?$'), lambda e, st, fr, t, a: NotImplemented))
    M.append((R(r' as Try>::branch$'), m_try_branch))
    M.append((R(r' as FromResidual<.*>>::from_residual$'), m_from_residual))
    M.append((R(r' as FutureExt>::map::<'), m_map))
    M.append((R(r' as FutureExt>::fuse$'), m_fuse))
    M.append((R(r'^((futures|std|core)::future::)?poll_fn::<'), m_poll_fn))
    M.append((R(r'^(std::task::|core::task::)?Context::<.*>::waker$|^(std::task::|core::task::)?Context::waker$'), lambda e, st, fr, t, a: VAgg(name='WakerRef')))
    M.append((R(r'^(std::task::|core::task::)?Waker::wake_by_ref$'), m_wake_by_ref))
    M.append((R(r' as FusedFuture>::is_terminated$'), m_is_terminated))
    M.append((R(r'^Poll::<.*>::map::<'), m_poll_map))
    M.append((R(r'futures_util::async_await::random::shuffle::<'), m_shuffle))
    M.append((R(r'^<&mut \[.*\] as IntoIterator>::into_iter$'), m_into_iter_slice))
    M.append((R(r'^<std::slice::IterMut<.*> as Iterator>::next$'), m_itermut_next))
    M.append((R(r'^<&mut dyn .*FnMut.* as FnMut<.*>>::call_mut$'), m_dyn_fnmut_call))
    M.append((R(r'^Option::<.*>::take$'), m_option_take))
    M.append((R(r'^Option::<.*>::filter::<'), m_option_filter))
    M.append((R(r'^std::mem::replace::<'), m_mem_replace))
    M.append((R(r' as (futures::)?Future>::poll$'), m_future_poll))
    M.append((R(r' as FutureExt>::poll_unpin$'), m_future_poll))


# ---- closure / coroutine body resolution ----------------------------------------------------------
def install_resolvers(eng: Engine):
    by_self = {}
    for f in eng.functions:
        if f.nargs >= 1:
            by_self.setdefault(_norm_self(f.arg_types[0]), []).append(f)

    def resolve_closure(st, clo):
        if not isinstance(clo, VAgg) or not (clo.name or '').startswith('{closure'):
            raise Unsupported(f"not a closure: {clo!r}")
        cands = by_self.get(_norm_self('&mut ' + clo.name), []) + by_self.get(_norm_self('&' + clo.name), []) + \
            by_self.get(_norm_self(clo.name), [])
        upv = set((clo.extra or {}).get('upvars') or ())
        if len(cands) > 1 and upv is not None:
            c2 = [f for f in cands if _upvar_names(f) == upv]
            if c2:
                cands = c2
        if len(cands) > 1:
            # prefer closures lexically nested in a function currently on the stack (innermost first)
            for fr in reversed(st.frames):
                c3 = [f for f in cands if f.name.startswith(fr.fn.name + '::{closure#')]
                if c3:
                    cands = c3
                    break
        if len(cands) != 1:
            raise Unsupported(f"closure body resolution: {len(cands)} candidates for {clo.name[-60:]} upvars={upv}")
        return cands[0]

    def resolve_poll_body(st, fr, t, fut):
        # by the Self type in the call text:  <{async ...} as Future>::poll
        m = re.match(r'^<(\{.*\}) as (?:futures::|std::future::)?Future>::poll$', t.func, re.S)
        if not m:
            return None
        key = _norm_self('Pin<&mut ' + m.group(1) + '>')
        c = by_self.get(key, [])
        if len(c) == 1:
            return c[0]
        if len(c) > 1:
            raise Unsupported(f"coroutine body resolution: {len(c)} candidates for {m.group(1)[:80]}")
        return None

    eng.resolve_closure = resolve_closure
    eng.resolve_poll_body = resolve_poll_body


def _norm_self(t):
    t = re.sub(r'\s+', ' ', t)
    t = t.replace('std::pin::Pin', 'Pin').replace('environment::timeout_fut', 'timeout_fut')
    # generic arguments of `async fn body of f<...>()` differ between call site (concrete) and header (generic)
    t = re.sub(r'(\{async fn body of [^<>{}]*?)<.*>\(\)\}', r'\1()}', t)
    t = re.sub(r'\{async fn body of <(.*?) as (.*?)>::(\w+)\(\)\}', lambda m: '{async fn body of <' + strip_generics(m.group(1)).split('::')[-1] + ' as ' + strip_generics(m.group(2)).split('::')[-1] + '>::' + m.group(3) + '()}', t)
    return t


def _upvar_names(f):
    names = set()
    for k, v in f.debug.items():
        if re.search(r'\(\*?_1\)?\.\d+|\(\(\*_1\)\.\d+', v):
            names.add(k)
    return names
