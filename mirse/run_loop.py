"""Explore the loop scenarios and evaluate the loop-level properties.  Returns per-property results."""
import time
import z3
import mir
from engine import Unsupported, VSym
from scen_loop import LoopScenario
import props_loop as P


def decide(eng, leaf, expr):
    """True / False if the path condition fixes `expr`, else None"""
    t = eng.feasible(leaf, expr)
    f = eng.feasible(leaf, z3.Not(expr))
    if t and not f:
        return True
    if f and not t:
        return False
    return None


def run(functions, enums, configs, budget_s=None):
    """configs: list of dict(strategy, stream, panics, max_msgs, max_polls, max_pending, max_items)"""
    results = {k: [] for k in ('C01', 'C02', 'C03', 'C04', 'C06', 'C07', 'C11', 'C13')}
    stats = {'paths': 0, 'solver_calls': 0, 'solver_s': 0.0, 'steps': 0, 'truncated': 0, 'bound': 0, 'configs': [],
             'functions': set(), 'modelled': {}, 'opaque': {}, 'samples': [], 'status': {}, 'distinct_traces': 0}
    distinct = set()
    t0 = time.time()
    for cfg in configs:
        sc = LoopScenario(functions, enums, **cfg)
        n = 0

        def leaves(sc=sc, cfg=cfg):
            # an unsupported construct met in one configuration makes the run inconclusive but does not hide what the
            # paths explored so far (and the other configurations) show
            try:
                t_cfg = time.time()
                for lf in sc.explore():
                    yield lf
                    if time.time() - t_cfg > cfg.get('max_seconds', 900):
                        raise Unsupported(f"time budget of the configuration exhausted ({cfg.get('max_seconds', 900)} s): a change to the loop made its path space explode")
            except Unsupported as ex:
                stats.setdefault('unsupported', []).append(f"{cfg['strategy']}/{'stream' if cfg.get('stream') else 'plain'}: {ex}")
        for leaf in leaves():
            n += 1
            tr = [e for e in leaf.events if e[0] != 'poll_loop']
            st = leaf.status
            stats['status'][st] = stats['status'].get(st, 0) + 1
            if st == 'truncated':
                stats['truncated'] += 1
                continue
            if st == 'unreachable':
                results['C03'].append(dict(cfg=cfg, msg='path reached a MIR `unreachable` block', trace=tr, choices=leaf.choices))
                continue
            if st == 'bound':
                stats['bound'] += 1
            explicit_panic = any(e[0] == 'panic' and e[1] == 'explicit' for e in tr)
            strat, stream = cfg['strategy'], cfg.get('stream', False)
            if stream:
                has_to, fail = False, None
            else:
                has_to = decide(sc.eng, leaf, sc.timeout.disc() == 1)
                fail = decide(sc.eng, leaf, sc.fail.scalar_bool())

            def add(pid, msgs):
                for m in msgs:
                    results[pid].append(dict(cfg=cfg, msg=m, trace=tr, choices=[str(c) for c in leaf.choices],
                                             has_timeout=has_to, fail_on_timeout=fail))
            if explicit_panic and stream and any(e[0] == 'next' and e[1] == 'restart' for e in tr):
                # restart request delivered to a stream-attached actor: explicit panic! in hannibal, outside C01-C18
                stats['excluded_stream_restart'] = stats.get('excluded_stream_restart', 0) + 1
                continue
            add('C01', P.sequential(tr))
            add('C03', P.lifecycle(tr, st, stream=stream, strategy=strat))
            a = P.announce(tr, st)
            add('C04', [m for m in a if 'hang' not in m and 'context' not in m])
            add('C02', [m for m in a if 'hang' in m])
            add('C06', [m for m in a if 'context' in m or ('hang' in m and st == 'panicked')])
            add('C04', P.stop_barrier(tr))
            if not stream:
                add('C07', P.restart(tr, strat))
                add('C11', P.timeouts(tr, has_to, fail))
            else:
                add('C13', P.stream_items(tr))
                add('C13', [m for m in P.lifecycle(tr, st, stream=True) if 'finished' in m])
            if any(e[0] in ('next', 'stream_next') and e[1] in ('task', 'stop', 'restart', 'item') for e in tr):
                distinct.add(hash((cfg['strategy'], cfg.get('stream', False), tuple(tr))))
            if len(stats['samples']) < 6 and n % 97 == 1:
                stats['samples'].append({'cfg': cfg, 'status': st, 'trace': [list(map(str, e)) for e in tr][:40]})
        e = sc.eng
        stats['paths'] += n
        stats['solver_calls'] += e.stats.solver_calls
        stats['solver_s'] += e.stats.solver_time
        stats['steps'] += e.stats.steps
        stats['functions'] |= e.stats.functions
        for k, v in e.stats.modelled.items():
            stats['modelled'][k] = stats['modelled'].get(k, 0) + v
        for k, v in e.stats.opaque.items():
            stats['opaque'][k] = stats['opaque'].get(k, 0) + v
        stats['configs'].append(dict(cfg, paths=n))
        if budget_s and time.time() - t0 > budget_s:
            stats['budget_hit'] = True
            break
    stats['wall_s'] = time.time() - t0
    stats['distinct_traces'] = len(distinct)
    return results, stats


def quick_configs():
    out = []
    for strat in ('RestartOnly', 'RecreateFromDefault', 'NonRestartable'):
        for has_to in ((True, False) if strat == 'RestartOnly' else (False,)):
            out.append(dict(strategy=strat, stream=False, panics=False, max_msgs=2, max_polls=5, max_pending=1, has_timeout=has_to))
    out.append(dict(strategy='RestartOnly', stream=False, panics=True, max_msgs=1, max_polls=4, max_pending=1, has_timeout=True))
    out.append(dict(strategy='NonRestartable', stream=True, panics=False, max_msgs=1, max_polls=5, max_pending=1, max_items=2))
    return out


def thorough_configs():
    out = _thorough_configs()
    for c in out:
        # (the larger configurations have 200-250 k engine paths: own path and time budget, still finite)
        c.setdefault('max_paths', 1500000)
        c.setdefault('max_seconds', 3000)
    return out


def _thorough_configs():
    out = []
    for strat in ('RestartOnly', 'RecreateFromDefault', 'NonRestartable'):
        for has_to in (True, False):
            # (the configurations with a handler timeout have ~207 k engine paths at these bounds: own path and time budget)
            out.append(dict(strategy=strat, stream=False, panics=False, max_msgs=3, max_polls=7, max_pending=1, has_timeout=has_to,
                            max_paths=1500000, max_seconds=3000))
    for strat in ('RestartOnly', 'RecreateFromDefault'):
        out.append(dict(strategy=strat, stream=False, panics=True, max_msgs=2, max_polls=5, max_pending=1, has_timeout=True))
    out.append(dict(strategy='NonRestartable', stream=True, panics=False, max_msgs=2, max_polls=6, max_pending=1, max_items=2))
    out.append(dict(strategy='NonRestartable', stream=True, panics=True, max_msgs=1, max_polls=4, max_pending=1, max_items=1))
    return out


if __name__ == '__main__':
    import sys, json, mirdump
    text, info = mirdump.dump()
    fs = mir.parse_mir(text)
    res, stats = run(fs, {'Payload': ['Task', 'Stop', 'Restart']}, quick_configs())
    print({k: len(v) for k, v in res.items()})
    for k, v in res.items():
        seen = set()
        for x in v:
            if x['msg'] in seen:
                continue
            seen.add(x['msg'])
            print(k, x['cfg']['strategy'], 'stream' if x['cfg'].get('stream') else '', x['msg'])
            if len(seen) <= 2:
                print('      ', x['trace'])
    stats['functions'] = sorted(stats['functions'])
    print({k: v for k, v in stats.items() if k not in ('samples', 'functions')})
    print(stats['functions'])
